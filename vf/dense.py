"""Dense-matrix extraction by basis probing.

A linear map on C^n is determined by its values on the n unit vectors, so one
pass over the canonical basis extracts M(A) and "for all x, y" identities
become finite matrix identities.  Linearity itself (what distinguishes a
missing conj from a correct operator) is checked on a deterministic spanning
family: i*e_j, adjacent pairs e_j+e_k, all-ones, one dense complex vector.
"""
import numpy as np


class ShapeError(Exception):
    pass


def prod(shape):
    p = 1
    for s in shape:
        p *= int(s)
    return p


def basis(n, j, shape, dtype=np.complex128, val=1.0):
    e = np.zeros(n, dtype=dtype)
    e[j] = val
    return e.reshape(shape)


def dense_of(fn, ishape, oshape=None, dtype=np.complex128, exact_shape=True):
    """Matrix of ``fn`` (array -> array).  Output shape must equal ``oshape``
    exactly when given.  Returns (M, stats)."""
    n = prod(ishape)
    cols = []
    for j in range(n):
        y = fn(basis(n, j, ishape, dtype))
        y = np.asarray(y)
        if oshape is not None and exact_shape and list(y.shape) != list(oshape):
            raise ShapeError("output shape %s != advertised %s" % (list(y.shape), list(oshape)))
        cols.append(np.array(y, dtype=np.complex128).ravel())
    M = np.stack(cols, axis=1) if cols else np.zeros((prod(oshape or []), 0), complex)
    return M


def dense_linop(A, dtype=np.complex128):
    return dense_of(lambda x: A(x), list(A.ishape), list(A.oshape), dtype)


def dense_vec(n, seed=0):
    """Deterministic dense complex vector (no RNG state involved)."""
    k = np.arange(1, n + 1, dtype=np.float64)
    return (np.cos(1.3 * k + seed) + 0.25 * k % 1.7) + 1j * (np.sin(0.7 * k * k + seed) - 0.3)


def linearity_defects(fn, M, ishape, tol, dtype=np.complex128, pairs=True):
    """Return list of (what, err) for probes where fn(x) != M @ x."""
    n = prod(ishape)
    scale = max(1.0, float(np.abs(M).max()) if M.size else 1.0)
    bad = []

    def probe(name, x):
        y = np.asarray(fn(x.reshape(ishape).astype(dtype))).ravel()
        ref = M @ x
        err = float(np.abs(y - ref).max()) if ref.size else 0.0
        if not np.isfinite(err) or err > tol * scale * max(1.0, float(np.abs(x).max())) * max(1, n) ** 0.5:
            bad.append((name, err))

    for j in range(n):
        e = np.zeros(n, complex)
        e[j] = 1j
        probe("i*e%d" % j, e)
    if pairs and n > 1:
        for j in range(n):
            e = np.zeros(n, complex)
            e[j] = 1
            e[(j + 1) % n] += 1
            probe("e%d+e%d" % (j, (j + 1) % n), e)
    probe("ones", np.ones(n, complex))
    probe("dense", (1 + 2j) * dense_vec(n))
    # structured inputs: shortcuts that are exact for generic data and wrong for special data (entries that sum to zero,
    # alternate in sign, are purely real / purely imaginary, vanish except at the ends, are exact powers of two)
    if n > 1:
        k = np.arange(n)
        probe("alternating", ((-1.0) ** k).astype(complex))
        probe("zero-mean ramp", (k - (n - 1) / 2.0).astype(complex))
        probe("e0-e_last", (np.where(k == 0, 1.0, 0.0) - np.where(k == n - 1, 1.0, 0.0)).astype(complex))
        probe("i*ones", 1j * np.ones(n, complex))
        probe("powers of two", (2.0 ** (k % 5 - 2)) * (1 + 1j))
        probe("real dense", np.real(dense_vec(n, 5)).astype(complex))
    # homogeneity far away from unit scale: a linear map has no absolute thresholds (values treated as zero below
    # 1e-8, clamps with machine eps, ...).  Compared relative to the scaled reference.
    for name, sc in (("1e-12*dense", 1e-12), ("1e+12*dense", 1e12)):
        x = sc * (1 - 0.5j) * dense_vec(n, 3)
        try:
            y = np.asarray(fn(x.reshape(ishape).astype(dtype))).ravel()
        except Exception:
            continue
        ref = M @ x
        if ref.size and np.abs(ref).max() > 0:
            err = float(np.abs(y - ref).max() / (sc * scale * max(1, n) ** 0.5))
            if not np.isfinite(err) or err > max(tol, 1e-6 if dtype == np.complex64 else tol) * 10:
                bad.append((name, err))
    return bad


def relerr(M, R):
    if M.shape != R.shape:
        return float("inf")
    if M.size == 0:
        return 0.0
    d = float(np.abs(M - R).max())
    if not np.isfinite(d):
        return float("inf")
    m = float(np.abs(R).max())
    return d / (m if m > 1e-12 else 1.0)
