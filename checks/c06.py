"""C06 — nufft approximates the non-uniform DFT to its stated accuracy.

Alphabet: image shapes (1-3 transform dims, odd/even/size-1, 0-1 batch dims) x
coordinate families {on-grid, half-integer, uniform random, clustered,
out-of-range, dense, shifted by multiples of N} x (oversamp, width).
Oracle: nufft is linear in the image: M(nufft) vs the exact NDFT matrix
E[j,n] = N^-1/2 exp(-2 pi i k_j.(n - N//2)/N) in the OPERATOR norm
(||M-E||_2 <= tau ||E||_2 bounds the error for every input at once);
M(nufft_adjoint) == M(nufft)^H exactly; periodicity in the coordinates.
"""
import itertools
import json
import os

import numpy as np

from vf import dense, opcat

PID = "C06"
LEVEL = "exploration"
ENGINE = "E1"
TECHNIQUE = ("bounded-exhaustive enumeration of (shape, coordinate family, oversamp, width) configurations on the real code; "
             "dense matrix by basis probing vs exact NDFT matrix in operator norm; exact-adjoint matrix identity")
LEVEL_TEXT = ("Each enumerated configuration is decided for all inputs (operator-norm bound on the dense matrix), but the "
              "coordinate sets are a finite family of representatives of an uncountable domain, hence exploration: "
              "bounded-exhaustive over the listed instances only.")
LEVEL_NOTE = ("tau = 3% at the defaults and 0.3% at (oversamp 2, width 4) are the property's figures; for the other "
              "(oversamp, width) pairs - including the non-integer widths 3.5 and 4.5 - tau is 2.5x the worst error measured on the pinned tree (regression baseline, "
              "vf/ref/nufft_tau.json), not a specification.")
RULE = ("full product of shapes x coordinate families x (oversamp, width); one case = one configuration; non-trivial = at "
        "least one transform axis longer than 1 and >= 2 coordinates")
ASSUMPTIONS = ["operator-norm relative error as the accuracy measure", "adjoint compared at 1e-9",
               "periodicity compared on tie-free (random) coordinates only: a point exactly on the kernel edge may "
               "legitimately enter or leave the window under a 1-ulp change"]
CHUNK = 16
OS = (1.25, 1.375, 1.5, 1.75, 2)
WD = (3, 4, 5, 6, 3.5, 4.5)
TAU_FILE = os.path.join(os.path.dirname(os.path.dirname(os.path.abspath(__file__))), "vf", "ref", "nufft_tau.json")


def load_tau():
    with open(TAU_FILE) as f:
        raw = json.load(f)
    return {(float(k.split(",")[0]), float(k.split(",")[1])): v for k, v in raw.items()}


def bounds(tier):
    return {"grids": GRIDS_T if tier == "thorough" else GRIDS_Q, "batch": [[], [2]],
            "families": FAMS, "oversamp": list(OS), "width": list(WD), "image dtype": ["complex128", "complex64 (documented pairs)"],
            "coordinate draws": 1 if tier == "quick" else "3 at the documented (oversamp, width) pairs"}


GRIDS_Q = [[4], [5], [1], [8], [7], [3, 4], [4, 4], [1, 4], [6, 1], [2, 2, 3], [2, 1, 4], [2, 3, 2], [3, 2, 2]]
GRIDS_T = [[4], [5], [1], [8], [7], [16], [3, 4], [4, 4], [5, 3], [1, 4], [6, 1], [2, 2, 3], [3, 3, 3], [2, 1, 4], [2, 3, 2], [3, 2, 2], [4, 2, 4], [3, 4, 4],
           [32], [31], [8, 8], [6, 5], [9, 4], [4, 4, 4], [3, 4, 5], [5, 2, 6]]
FAMS = ["random", "ongrid", "half", "cluster", "outside", "dense", "shifted", "far"]


def gen_cases(tier, seed):
    cases = _gen_cases(tier, seed)
    if tier == "thorough":
        # two further draws of every seeded coordinate family at the two documented (oversamp, width) pairs
        more = [dict(c, cseed=k) for c in cases for k in (1, 2)
                if c["fam"] in ("random", "cluster", "dense", "far", "outside", "shifted") and (c["oversamp"], c["width"]) in ((1.25, 4), (2, 4))]
        cases += more
    return cases


def _gen_cases(tier, seed):
    T = tier == "thorough"
    cases = []
    for grid in (GRIDS_T if T else GRIDS_Q):
        for fam in FAMS:
            for osf, w in itertools.product(OS, WD):
                if not T and (osf, w) not in ((1.25, 4), (2, 4), (1.5, 3), (1.375, 5), (1.25, 4.5), (2, 3.5)) and fam in ("dense", "shifted", "outside") and len(grid) > 1:
                    continue
                for batch in ([], [2]):
                    if batch and ((osf, w) not in ((1.25, 4), (2, 4)) or fam not in ("random", "half")):
                        continue
                    cases.append(dict(kind="nufft", grid=grid, batch=batch, fam=fam, oversamp=osf, width=w))
                # single-precision images (coordinates stay double): same accuracy figures
                if (osf, w) in ((1.25, 4), (2, 4)) and fam in ("random", "far", "outside", "half"):
                    cases.append(dict(kind="nufft", grid=grid, batch=[], fam=fam, oversamp=osf, width=w, dtype="c64"))
    return cases


def warmup():
    import sigpy as sp
    for nd in (1, 2, 3):
        x = np.zeros([3] * nd, dtype=np.complex128)
        c = np.zeros((2, nd))
        sp.nufft(x, c)
        sp.nufft_adjoint(np.zeros(2, dtype=np.complex128), c, [3] * nd)


def make_coords(case, seed):
    grid = case["grid"]
    fam = case["fam"]
    N = dense.prod(grid)
    spec = dict(grid=grid, fam=fam)
    if fam == "dense":
        return opcat.coords("random", grid, 3 * N, seed, spec, centered=True)
    if fam == "shifted":
        c = opcat.coords("random", grid, 6, seed, spec, centered=True)
        mult = np.array([[1, -2, 3][d % 3] * n for d, n in enumerate(grid)], dtype=float)
        return c + mult
    if fam == "far":
        # thousands of periods away from the grid: still exactly representable in double precision
        c = opcat.coords("random", grid, 6, seed, spec, centered=True)
        mult = np.array([[4096, -65536, 1024][d % 3] * n for d, n in enumerate(grid)], dtype=float)
        return c + mult
    if fam == "outside":
        c = opcat.coords("random", grid, 6, seed, spec, centered=True)
        return c * 4.0 + 0.37
    return opcat.coords(fam, grid, 6, seed, spec, centered=True)


def ndft_matrix(grid, coord):
    """E[j, n] = N^-1/2 exp(-2 pi i sum_d k_jd (n_d - N_d//2) / N_d)."""
    N = dense.prod(grid)
    idx = np.stack(np.meshgrid(*[np.arange(n) - n // 2 for n in grid], indexing="ij"), axis=-1).reshape(N, len(grid))
    ph = np.zeros((coord.shape[0], N))
    for d, n in enumerate(grid):
        ph += np.outer(coord[:, d], idx[:, d]) / n
    return np.exp(-2j * np.pi * ph) / np.sqrt(N)


def measure(case, seed):
    import sigpy as sp
    grid, batch = case["grid"], case["batch"]
    coord = make_coords(case, seed + 101 * case.get("cseed", 0))
    osf, w = case["oversamp"], case["width"]
    E1 = ndft_matrix(grid, coord)
    B = dense.prod(batch)
    E = np.kron(np.eye(B), E1) if B > 1 else E1
    ish = batch + grid
    osh = batch + [coord.shape[0]]
    c0 = coord.copy()
    cdt = np.complex64 if case.get("dtype") == "c64" else np.complex128
    M = dense.dense_of(lambda x: sp.nufft(x, coord, oversamp=osf, width=w), ish, osh, dtype=cdt)
    MA = dense.dense_of(lambda y: sp.nufft_adjoint(y, coord, ish, oversamp=osf, width=w), osh, ish, dtype=cdt)
    err = float(np.linalg.norm(M - E, 2) / np.linalg.norm(E, 2))
    return M, MA, E, err, coord, c0


def run_case(case, seed):
    import sigpy as sp
    tau = load_tau()
    viol = []
    osf, w = case["oversamp"], case["width"]
    when = "oversamp=%s width=%s" % (osf, w)
    M, MA, E, err, coord, c0 = measure(case, seed)
    trans = M.shape[1] + MA.shape[1]
    t = tau[(float(osf), float(w))]
    single = case.get("dtype") == "c64"
    cdt = np.complex64 if single else np.complex128
    if single:
        when += ", complex64 image"
        t = t + 1e-4
    if not err <= t:
        viol.append(dict(oracle="ndft-accuracy", key=dict(site="fourier.nufft", when=when),
                         detail="||M - E||_2/||E||_2 = %.4g > tau = %.4g (grid %s, %s coordinates)" % (err, t, case["grid"], case["fam"])))
    e2 = dense.relerr(MA, M.conj().T)
    if not e2 <= (1e-9 if not single else 1e-5):
        viol.append(dict(oracle="exact-adjoint", key=dict(site="fourier.nufft_adjoint", when=when),
                         detail="max|M(nufft_adjoint) - M(nufft)^H| / max|M| = %.3g" % e2))
    if coord.tobytes() != c0.tobytes():
        viol.append(dict(oracle="input-mutated", key=dict(site="fourier.nufft", when="coord"), detail="coordinate array modified"))
    if case["fam"] in ("random", "cluster", "dense"):
        grid = case["grid"]
        shift = np.array([[2, -1, 1][d % 3] * n for d, n in enumerate(grid)], dtype=float)
        ish = case["batch"] + grid
        M2 = dense.dense_of(lambda x: sp.nufft(x, coord + shift, oversamp=osf, width=w), ish, None, dtype=cdt)
        trans += M2.shape[1]
        e3 = dense.relerr(M2, M)
        if not e3 <= (1e-8 if not single else 1e-5):
            viol.append(dict(oracle="periodicity", key=dict(site="fourier.nufft", when=when),
                             detail="coordinates shifted by %s: matrix differs by %.3g" % (shift.tolist(), e3)))
    # Gram clause: nufft_adjoint(nufft(x)) approximates E^H E
    G = MA @ M
    GE = E.conj().T @ E
    ge = float(np.linalg.norm(G - GE, 2) / max(np.linalg.norm(GE, 2), 1e-300))
    if not ge <= 2 * t + t * t + 1e-9:
        viol.append(dict(oracle="gram", key=dict(site="fourier.nufft_adjoint(nufft)", when=when),
                         detail="||A^H A - E^H E||_2/||E^H E||_2 = %.4g > %.4g" % (ge, 2 * t + t * t)))
    nontrivial = any(n > 1 for n in case["grid"])
    return dict(states=1, transitions=trans, nontrivial=bool(nontrivial),
                outcome="ok" if not viol else "violation:" + viol[0]["oracle"], viol=viol,
                digest="%.6e" % err)
