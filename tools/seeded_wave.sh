#!/bin/bash
# tools/seeded_wave.sh [tier]: run, for every seeded change, the quick check of the property it was written against
TIER="${1:-quick}"
for d in /verif/seeded/C*; do n=$(basename $d); p=${n:0:3}; /verif/tools/mutant.sh $d/patch.diff $p -- $TIER | cut -c1-260; done
