"""C04 — the normal operator A.N is A^H A.

Alphabet: every leaf configuration (Appendix A), every expression tree up to the
node bound, NUFFT toeplitz on/off x oversamp x width.  Histories: .N taken
before .H and after .H (cache order must not matter).
Oracle: M(A.N) == M(A)^H M(A) (1e-9 relative; Toeplitz NUFFT: operator-norm
error within the NUFFT accuracy table).  Consumer clause: the default
LinearLeastSquares solver (which works through A.N) satisfies the normal
equations of M(A).
"""
import numpy as np

from vf import dense, opcat, programs

PID = "C04"
LEVEL = "model_checking"
ENGINE = "E1+E3"
TECHNIQUE = ("bounded-exhaustive enumeration of operator configurations/trees and .N/.H cache orders on the real code; "
             "dense matrices by basis probing; finite matrix identity M(A.N) = M(A)^H M(A)")
LEVEL_TEXT = ("Every configuration/tree in the bounded alphabets is built twice (N-before-H and H-before-N); A and A.N are "
              "applied to the whole canonical basis, so the identity M(A.N)=M(A)^H M(A) decides A.N(x)=A^H A x for all x of "
              "that configuration; a sub-sweep also runs the real least-squares solver through A.N and checks the normal "
              "equations of M(A).")
LEVEL_NOTE = ("Bounded shapes and trees (small-scope hypothesis); Toeplitz NUFFT normal is only required to be within the "
              "NUFFT accuracy table (regression baseline 2.5x the pinned-tree error except at the two settings the property names).")
RULE = ("one case = one operator configuration or tree x both cache orders; non-trivial = M(A)^H M(A) is not the identity "
        "(a shortcut returning Identity would be wrong)")
ASSUMPTIONS = ["CPU/NumPy backend", "tolerance 1e-9 relative to max|M^H M| (fp); Toeplitz: tau*||M||_2^2"]
TOL = 1e-9
CHUNK = 24

# operator-norm tolerance of the Toeplitz-embedded normal operator, by (oversamp, width)
# (1.25,4) and (2,4): the property's NUFFT accuracies eps=3% / 0.3% propagate to A^H A as 2*eps+eps^2;
# the other two are regression baselines, 2.5x the worst error measured on the pinned tree.
TOEP_TAU = {(1.25, 4): 0.0609, (2, 4): 0.006009, (1.5, 3): 0.23, (1.375, 6): 0.0015}


def bounds(tier):
    return {"leaf alphabets": "vf/opcat.py leaf_specs('%s')" % tier,
            "n-ary": "3- and 4-operand Add/Compose/Hstack/Vstack/Diag over 5 leaves (quick) / 3-operand over 11 leaves (thorough)", "tree nodes": "1 over 11 leaves, 2 over 5 leaves" if tier == "quick" else "<= 2 over 11 leaves",
            "cache orders": ["N then H", "H then N"],
            "consumer": "LinearLeastSquares(A, y, lamda=0.1) with the default solver (CG) on every 7th non-Toeplitz configuration with <= 16 inputs and cond <= 1e6; GradientMethod and ADMM as well on every 63rd configuration where cond(A^H A + lamda) <= 50"}


def gen_cases(tier, seed):
    cases = [dict(kind="leaf", spec=s) for s in opcat.leaf_specs(tier)
             if s["op"] not in ("NUFFTAdjoint",) or True]
    for t in programs.trees(programs.LEAVES, 1):
        cases.append(dict(kind="tree", spec=t))
    for t in programs.nary_trees(programs.SUB5 if tier == "quick" else programs.LEAVES, (3, 4) if tier == "quick" else (3,)):
        cases.append(dict(kind="tree", spec=t))
    if tier == "quick":
        for t in programs.trees(programs.SUB5, 2, all_axes=False, scalars=programs.SCALARS[:2]):
            cases.append(dict(kind="tree", spec=t))
    else:
        for t in programs.trees(programs.LEAVES, 2):
            cases.append(dict(kind="tree", spec=t))
    for i, c in enumerate(cases):
        c["consumer"] = (i % 7 == 0)
        c["consumer_all_solvers"] = (i % 63 == 0)
    return cases


def warmup():
    from checks import c01
    c01.warmup()


def classify(spec):
    from checks import c01
    w = c01.classify(spec)
    if spec["op"] in ("ArrayToBlocks", "BlocksToArray"):
        D = len(spec["B"])
        N = spec["shape"][-D:]
        tiling = all(b == s and (n - b) % s == 0 for n, b, s in zip(N, spec["B"], spec["S"]))
        w = "tiling" if tiling else "overlapping, gapped or non-tiling stride"
    if spec["op"] == "NUFFT":
        w = "toeplitz" if spec.get("toeplitz") else "toeplitz off"
    return w


def exc_key(case, root):
    spec = case["spec"]
    return dict(site=spec["op"] + ".N", when=classify(spec) + ", raised " + type(root).__name__)


def run_case(case, seed):
    spec = programs.strip(case["spec"])
    site = spec["op"] + ".N"
    when = classify(spec)
    viol = []

    def V(oracle, detail):
        viol.append(dict(oracle=oracle, key=dict(site=site, when=when), detail=detail,
                         python="vf.opcat.build(%r).N" % (spec,)))

    A = opcat.build(spec, seed)
    ish = list(A.ishape)
    M = dense.dense_linop(A)
    G = M.conj().T @ M
    trans = M.shape[1]
    toep = spec["op"] == "NUFFT" and spec.get("toeplitz")
    states = 1
    for order in ("N-then-H", "H-then-N"):
        B = opcat.build(spec, seed)
        if order == "H-then-N":
            B.H
        N = B.N
        if order == "N-then-H":
            B.H
        states += 1
        if list(N.ishape) != ish or list(N.oshape) != ish:
            V("normal-shapes", "%s: A.N maps %s->%s, expected %s->%s" % (order, N.ishape, N.oshape, ish, ish))
            continue
        try:
            MN = dense.dense_linop(N)
        except dense.ShapeError as e:
            V("output-shape", order + ": " + str(e))
            continue
        trans += MN.shape[1]
        if toep:
            tau = TOEP_TAU[(spec["oversamp"], spec["width"])]
            nrm = np.linalg.norm(M, 2) ** 2 if M.size else 0.0
            err = np.linalg.norm(MN - G, 2) if M.size else 0.0
            if not err <= tau * max(nrm, 1e-300) + 1e-12:
                V("normal-matrix-toeplitz", "%s: ||M(A.N)-M^H M||_2 = %.3g > %.3g*||M||_2^2 = %.3g" % (
                    order, err, tau, tau * nrm))
        else:
            e = dense.relerr(MN, G)
            if not e <= TOL:
                V("normal-matrix", "%s: max|M(A.N) - M^H M| / max|M^H M| = %.3g" % (order, e))
            bad = dense.linearity_defects(lambda x: N(x), MN, ish, TOL, pairs=False)
            trans += MN.shape[1] + 2
            if bad:
                V("linearity", "A.N is not C-linear on probe %s (err %.3g)" % bad[0])
    # A.N is a value: accumulating onto the operator a caller obtained (the library's own `AHA = A.N; AHA += lamda * I`
    # idiom) must not change what A.N is
    lam = 0.1
    if not toep and not viol and len(ish) > 0:
        import sigpy as sp
        B = opcat.build(spec, seed)
        N1 = B.N
        acc = N1
        acc += lam * sp.linop.Identity(ish)
        acc = acc + N1
        states += 1
        for label, op in (("the operator obtained before", N1), ("A.N read again", B.N)):
            try:
                e = dense.relerr(dense.dense_linop(op), G)
            except dense.ShapeError as ex:
                V("normal-after-accumulate", "%s: %s" % (label, ex))
                continue
            trans += G.shape[1]
            if not e <= TOL:
                V("normal-after-accumulate", "after `AHA = A.N; AHA += 0.1*I`, %s differs from M^H M by %.3g" % (label, e))
    # consumer clause
    wellposed = len(ish) > 0 and 0 < M.shape[1] <= 16 and M.shape[0] <= 64 and \
        np.linalg.cond(G + lam * np.eye(G.shape[0])) <= 1e6
    if case.get("consumer") and not toep and wellposed and not viol:
        import sigpy as sp
        C = opcat.build(spec, seed)
        y = (dense.dense_vec(M.shape[0], 1) * (1 - 0.5j)).reshape(C.oshape)
        x = sp.app.LinearLeastSquares(C, y.copy(), lamda=lam, max_iter=400, tol=1e-14, show_pbar=False).run()
        states += 1
        trans += 1
        xv = np.asarray(x).ravel()
        res = G @ xv + lam * xv - M.conj().T @ y.ravel()
        scale = max(1.0, float(np.abs(M.conj().T @ y.ravel()).max()))
        if not np.abs(res).max() <= 1e-6 * scale:
            V("consumer-normal-equations", "LinearLeastSquares(A,y,lamda=0.1) leaves normal-equation residual %.3g" % np.abs(res).max())
        # the operator a solver was given is still the same operator afterwards, and a second solve agrees
        try:
            e = dense.relerr(dense.dense_linop(C.N), G)
            e1 = dense.relerr(dense.dense_linop(C), M)
        except dense.ShapeError as ex:
            e = e1 = float("inf")
        trans += 2 * G.shape[1]
        if not (e <= TOL and e1 <= TOL):
            V("operator-after-consumer", "after LinearLeastSquares(A, y, lamda=0.1).run(): |M(A.N)-M^H M| = %.3g, |M(A)-M| = %.3g" % (e, e1))
        xb = sp.app.LinearLeastSquares(C, y.copy(), lamda=lam, max_iter=400, tol=1e-14, show_pbar=False).run()
        resb = G @ np.asarray(xb).ravel() + lam * np.asarray(xb).ravel() - M.conj().T @ y.ravel()
        if not np.abs(resb).max() <= 1e-6 * scale:
            V("consumer-normal-equations", "second LinearLeastSquares solve on the same operator leaves normal-equation residual %.3g" % np.abs(resb).max())
        # the other solvers that work through A.N (GradientMethod: gradient A.N x - A^H y; ADMM: inner CG on A.N + ...)
        if case.get("consumer_all_solvers") and np.linalg.cond(G + lam * np.eye(G.shape[0])) <= 50:
            for solver, kw in (("GradientMethod", dict(max_iter=1500)), ("ADMM", dict(max_iter=150, max_cg_iter=20))):
                C2 = opcat.build(spec, seed)
                np.random.seed(11)
                try:
                    x2 = sp.app.LinearLeastSquares(C2, y.copy(), lamda=lam, solver=solver, tol=0, show_pbar=False, **kw).run()
                except Exception as e:
                    V("consumer-normal-equations", "LinearLeastSquares(solver=%s) raised %s: %s" % (solver, type(e).__name__, str(e)[:100]))
                    continue
                states += 1
                trans += 1
                xv2 = np.asarray(x2).ravel()
                res2 = G @ xv2 + lam * xv2 - M.conj().T @ y.ravel()
                if not (np.all(np.isfinite(xv2)) and np.abs(res2).max() <= 1e-5 * scale):
                    V("consumer-normal-equations", "LinearLeastSquares(A,y,lamda=0.1,solver=%s) leaves normal-equation residual %.3g" % (
                        solver, float(np.abs(res2).max()) if np.all(np.isfinite(xv2)) else float("nan")))
    n = G.shape[0]
    nontrivial = not np.allclose(G, np.eye(n))
    return dict(states=states, transitions=trans, nontrivial=bool(nontrivial),
                outcome="ok" if not viol else "violation:" + viol[0]["oracle"], viol=viol)
