"""C15 — solvers stop within max_iter and stop early only at genuine fixed points.

Alphabet: every Alg subclass (PowerMethod, GradientMethod, ConjugateGradient, PDHG,
AltMin, AugmentedLagrangianMethod, ADMM, SDMM, NewtonsMethod, GerchbergSaxton) and the
Apps (App, MaxEig, LinearLeastSquares per solver, L2ConstrainedMinimization) on small
instances; max_iter in {0,1,2,3(,5)}; tol = 0.
Histories (E2): EVERY word over {update, done} of length <= 2 max_iter + 4 with at
most max_iter + 2 updates, each rebuilt on a fresh object.
Invariants in every state: done() does not change the state; update() advances
iter by exactly 1; once iter >= max_iter done() is and stays true; the canonical
loop and App.run() perform <= max_iter updates and return the array the algorithm
holds.  Early stop: whenever the canonical loop stops with iter < max_iter the same
history is rebuilt and driven for the REMAINING budget ignoring done(); the
solution must stay where it was (1e-9 relative) or a breakdown flag must be set.
PowerMethod: after the first normalisation the estimate is non-decreasing and
<= lambda_max for Hermitian PSD operators.
"""
import itertools

import numpy as np

from vf import snapshot

PID = "C15"
LEVEL = "model_checking"
ENGINE = "E2"
TECHNIQUE = ("exhaustive enumeration of update()/done() interleavings on fresh real solver objects with counter and "
             "purity invariants in every state; early stops re-driven for the remaining budget on a fresh object")
LEVEL_TEXT = ("Every interleaving of update() and done() up to max_iter+2 updates is executed on a fresh real object of every "
              "solver class and the driver-protocol invariants are evaluated in every state; every early stop found by the "
              "canonical loop over an enumerated instance family is re-driven past the stop to decide whether it was a genuine "
              "fixed point.")
LEVEL_NOTE = ("max_iter <= 3 (quick) / 5 (thorough) for the interleavings, 80 for the early-stop scan; instance families are finite "
              "(listed in bounds); SDMM has no tol (eps rule) and only the counting invariants apply to it.")
RULE = ("one case = one solver instance x max_iter (all its words) or one early-stop scan instance; states = distinct "
        "(iter, solution digest, done) triples; non-trivial = max_iter >= 1")
ASSUMPTIONS = ["tol = 0 everywhere", "solution unchanged means <= 1e-9 relative after driving the remaining budget"]
CHUNK = 6


def bounds(tier):
    return {"max_iter (interleavings)": [0, 1, 2, 3] + ([5] if tier == "thorough" else []),
            "word length": "<= 2*max_iter+4, <= max_iter+2 updates",
            "solvers": sorted(FACTORIES), "apps": sorted(APPS),
            "early-stop scan": "GradientMethod box/l1 family (%d instances), PDHG {l1,box} x sigma in {1,0.1,0.01} x theta in {1,0.5,0} x dual prox in {quadratic, l1-conjugate} zero init, CG, Newton, LLS apps, L2ConstrainedMinimization; max_iter 80" % len(list(gm_family())),
            "power method": "C12 spectra x {I, householder, dft} x 3 starts, n <= 6, 30 updates"}


# ---------------------------------------------------------------- instances
def _A(n=3, seed=0, m=None):
    r = np.random.default_rng(100 + seed)
    return r.standard_normal((m or n + 1, n))


def f_power(mi):
    import sigpy as sp
    M = np.array([[2.0, 0.5, 0], [0.5, 1.0, 0.2], [0, 0.2, 0.5]])
    x = np.array([1.0, 1.0, 1.0])
    alg = sp.alg.PowerMethod(lambda v: M @ v, x, max_iter=mi)
    return alg, lambda: [x], lambda: False


def f_gm(mi, acc=False, prox="l1"):
    import sigpy as sp
    A = _A(3, 1)
    y = A @ np.array([1.0, 0.0, -0.5]) + 0.1
    L = np.linalg.norm(A, 2) ** 2
    x = np.zeros(3)
    P = {"l1": sp.prox.L1Reg([3], 0.2), "box": sp.prox.BoxConstraint([3], 0, 0.7), None: None}[prox]
    alg = sp.alg.GradientMethod(lambda v: A.T @ (A @ v - y), x, 1 / L, proxg=P, accelerate=acc, max_iter=mi, tol=0)
    return alg, lambda: [x], lambda: False


def f_cg(mi):
    import sigpy as sp
    A = _A(4, 2)
    H = A.T @ A + 0.1 * np.eye(4)
    b = np.array([1.0, -1.0, 0.5, 2.0])
    x = np.zeros(4)
    alg = sp.alg.ConjugateGradient(lambda v: H @ v, b, x, max_iter=mi, tol=0)
    return alg, lambda: [x], lambda: False     # H is positive definite: a "breakdown" stop is not a genuine one here


def f_cg_ill(mi):
    """Positive definite, condition number 1e4, b = ones: CG's residual norm rises in several steps."""
    import sigpy as sp
    d = np.logspace(0, 4, 8)
    b = np.ones(8)
    x = np.zeros(8)
    alg = sp.alg.ConjugateGradient(lambda v: d * v, b, x, max_iter=mi, tol=0)
    return alg, lambda: [x], lambda: False


def f_pdhg(mi, prox="l1", sigma=0.1, theta=1, fc="l2"):
    import sigpy as sp
    A = _A(3, 3)
    y = A @ np.array([1.0, 0.0, -0.5]) + 0.1
    nrm = np.linalg.norm(A, 2)
    tau = 1.0 / (sigma * nrm ** 2)
    x, u = np.zeros(3), np.zeros(4)
    if fc == "l2":
        # f(z) = 1/2 ||z - y||^2
        P = {"l1": sp.prox.L1Reg([3], 0.3), "box": sp.prox.BoxConstraint([3], -0.2, 0.6)}[prox]
        Fc = sp.prox.L2Reg([4], 1, y=-y)
    else:
        # f(z) = lam ||z||_1 (dual variable lives in a box and can stall while x moves), g(x) = 1/2 ||x - c||^2
        Fc = sp.prox.Conj(sp.prox.L1Reg([4], 0.5))
        P = sp.prox.L2Reg([3], 1, y=np.array([1.0, -2.0, 0.5]))
    alg = sp.alg.PrimalDualHybridGradient(Fc, P, lambda v: A @ v, lambda v: A.T @ v,
                                          x, u, tau, sigma, theta=theta, max_iter=mi, tol=0)
    return alg, lambda: [x, u], lambda: False


def f_altmin(mi):
    import sigpy as sp
    st = dict(a=np.array([2.0]), b=np.array([-1.0]))

    def m1():
        st["a"][:] = 0.5 * st["b"] + 1

    def m2():
        st["b"][:] = 0.5 * st["a"] - 1
    alg = sp.alg.AltMin(m1, m2, max_iter=mi)
    return alg, lambda: [st["a"], st["b"]], lambda: False


def f_alm(mi):
    import sigpy as sp
    n = 3
    A = _A(n, 4)
    y = A @ np.array([1.0, 2.0, -1.0])
    lam, mu = 0.1, 1.0
    xz = np.zeros(2 * n)
    v = np.zeros(n)

    def minL():
        x, z = xz[:n], xz[n:]
        x[:] = np.linalg.solve(A.T @ A + mu * np.eye(n), A.T @ y - v + mu * z)
        z[:] = (mu * x + v) / (mu + lam)
    alg = sp.alg.AugmentedLagrangianMethod(minL, None, lambda t: t[:n] - t[n:], xz, None, v, mu, max_iter=mi)
    return alg, lambda: [xz, v], lambda: False


def f_admm(mi):
    import sigpy as sp
    n = 3
    A = _A(n, 5)
    y = A @ np.array([1.0, 0.0, -1.0])
    rho, lam = 1.0, 0.2
    x, z, u = np.zeros(n), np.zeros(n), np.zeros(n)

    def mx():
        x[:] = np.linalg.solve(A.T @ A + rho * np.eye(n), A.T @ y + rho * (z - u))

    def mz():
        t = x + u
        z[:] = np.sign(t) * np.maximum(np.abs(t) - lam / rho, 0)
    I = sp.linop.Identity([n])
    alg = sp.alg.ADMM(mx, mz, x, z, u, I, -I, 0, max_iter=mi)
    return alg, lambda: [x, z, u], lambda: False


def f_sdmm(mi):
    import sigpy as sp
    n = 3
    Am = _A(n, 6)
    y = (Am @ np.array([1.0, 0.5, -1.0])).reshape(-1, 1)
    A = sp.linop.MatMul([n, 1], Am)
    alg = sp.alg.SDMM(A, y, 0.1, L=[], c=[1], mu=1e8, rho=[1], rho_max=1, rho_norm=1, c_max=None, c_norm=0.5,
                      max_cg_iter=5, max_iter=mi)
    return alg, lambda: [alg.x], lambda: True   # eps rule, not tol: only counting invariants


def f_newton(mi):
    import sigpy as sp
    n = 3
    A = _A(n, 7)
    y = A @ np.array([1.0, 2.0, -1.0]) + 0.05
    H = A.T @ A + 0.1 * np.eye(n)
    x = np.zeros(n)
    alg = sp.alg.NewtonsMethod(lambda v: H @ v - A.T @ y, lambda v: (lambda g: np.linalg.solve(H, g)), x, max_iter=mi, tol=0)
    return alg, lambda: [x], lambda: False


def f_newton_bt(mi):
    """Backtracking line search engaged: f = sum sqrt(1 + x^2) from |x| > 1, where the full Newton step (x -> -x^3)
    is rejected several times per update."""
    import sigpy as sp
    x = np.array([3.0, -2.0, 1.5])
    f = lambda v: float(np.sum(np.sqrt(1 + v ** 2)))  # noqa
    gradf = lambda v: v / np.sqrt(1 + v ** 2)  # noqa
    inv_hessf = lambda v: (lambda g: g * (1 + v ** 2) ** 1.5)  # noqa
    alg = sp.alg.NewtonsMethod(gradf, inv_hessf, x, beta=0.5, f=f, max_iter=mi, tol=0)
    return alg, lambda: [x], lambda: False


def f_gs(mi):
    import sigpy as sp
    n = 3
    Am = (_A(n, 8) + 0.3j * _A(n, 9)).astype(np.complex128)
    xt = np.array([[1.0 + 0.5j], [0.3], [-0.7j]])
    y = np.abs(Am @ xt)
    A = sp.linop.MatMul([n, 1], Am)
    x0 = np.ones((n, 1), dtype=np.complex128) * (0.5 + 0.1j)
    alg = sp.alg.GerchbergSaxton(A, y, x0, max_iter=mi, tol=0, lamb=0.1)
    return alg, lambda: [alg.x], lambda: False


def f_gs_warm(mi):
    """Warm start exactly on the measured magnitudes (|A x0| == y) with lamb > 0: the first update still moves x."""
    import sigpy as sp
    n = 3
    Am = (_A(n, 8) + 0.3j * _A(n, 9)).astype(np.complex128)
    A = sp.linop.MatMul([n, 1], Am)
    x0 = np.array([[1.0 + 0.5j], [0.3], [-0.7j]])
    y = np.abs(np.asarray(A(x0.copy())))
    alg = sp.alg.GerchbergSaxton(A, y, x0, max_iter=mi, tol=0, lamb=0.1)
    return alg, lambda: [alg.x], lambda: False


FACTORIES = {
    "PowerMethod": f_power,
    "GradientMethod": lambda mi: f_gm(mi, False, "l1"),
    "GradientMethod.accel.box": lambda mi: f_gm(mi, True, "box"),
    "GradientMethod.plain": lambda mi: f_gm(mi, True, None),
    "ConjugateGradient": f_cg,
    "ConjugateGradient.illconditioned": f_cg_ill,
    "PrimalDualHybridGradient": lambda mi: f_pdhg(mi, "l1", 0.1),
    "PrimalDualHybridGradient.box": lambda mi: f_pdhg(mi, "box", 1.0),
    "PrimalDualHybridGradient.theta0.l1dual": lambda mi: f_pdhg(mi, "l1", 0.5, theta=0, fc="l1"),
    "AltMin": f_altmin,
    "AugmentedLagrangianMethod": f_alm,
    "ADMM": f_admm,
    "SDMM": f_sdmm,
    "NewtonsMethod": f_newton,
    "NewtonsMethod.backtracking": f_newton_bt,
    "GerchbergSaxton": f_gs,
    "GerchbergSaxton.warm": f_gs_warm,
}


def a_lls(mi, solver, prox=None):
    import sigpy as sp
    A = _A(3, 10)
    y = A @ np.array([1.0, 0.0, -0.5]) + 0.1
    kw = dict(solver=solver, max_iter=mi, tol=0, show_pbar=False, lamda=0.1)
    if prox == "l1":
        kw["proxg"] = sp.prox.L1Reg([3, 1], 0.2)
    if prox == "box":
        kw["proxg"] = sp.prox.BoxConstraint([3, 1], -0.2, 0.6)
    app = sp.app.LinearLeastSquares(sp.linop.MatMul([3, 1], A), y.reshape(4, 1), **kw)
    return app


def a_l2c(mi):
    import sigpy as sp
    A = _A(3, 11, m=3) + 2 * np.eye(3)
    y = A @ np.array([1.0, 0.0, -0.5])
    return sp.app.L2ConstrainedMinimization(sp.linop.MatMul([3, 1], A), y.reshape(3, 1), sp.prox.L1Reg([3, 1], 1.0), 0.1,
                                            max_iter=mi, show_pbar=False)


def a_maxeig(mi):
    import sigpy as sp
    M = np.array([[2.0, 0.5], [0.5, 1.0]])
    return sp.app.MaxEig(sp.linop.MatMul([2, 1], M), max_iter=mi, show_pbar=False)


def a_app(mi):
    import sigpy as sp
    alg, sol, _ = f_gm(mi, False, "l1")
    return sp.app.App(alg, show_pbar=False)


APPS = {
    "App(GradientMethod)": a_app,
    "MaxEig": a_maxeig,
    "LinearLeastSquares/ConjugateGradient": lambda mi: a_lls(mi, "ConjugateGradient"),
    "LinearLeastSquares/GradientMethod": lambda mi: a_lls(mi, "GradientMethod", "l1"),
    "LinearLeastSquares/PrimalDualHybridGradient": lambda mi: a_lls(mi, "PrimalDualHybridGradient", "l1"),
    "LinearLeastSquares/PrimalDualHybridGradient.box": lambda mi: a_lls(mi, "PrimalDualHybridGradient", "box"),
    "LinearLeastSquares/ADMM": lambda mi: a_lls(mi, "ADMM", "l1"),
    "L2ConstrainedMinimization": a_l2c,
}


def gm_family():
    for c in (0.99, 0.9, 0.5, 1.2, -0.3, 0.999):
        for L in (1.0, 4.0):
            for alpha in ("1/L", "1/2L"):
                for acc in (False, True):
                    for x0 in (0.0, 1.0, 0.3):
                        for dim in (1, 2):
                            yield dict(c=c, L=L, alpha=alpha, acc=acc, x0=x0, dim=dim)


def gen_cases(tier, seed):
    T = tier == "thorough"
    cases = []
    mis = [0, 1, 2, 3] + ([5] if T else [])
    for name in sorted(FACTORIES):
        for mi in mis:
            cases.append(dict(kind="words", solver=name, max_iter=mi))
    for name in sorted(APPS):
        for mi in mis + [7]:
            cases.append(dict(kind="app", app=name, max_iter=mi))
    for g in gm_family():
        cases.append(dict(kind="early-gm", **g))
    for prox in ("l1", "box"):
        for sigma in (1.0, 0.1, 0.01):
            for theta in (1, 0.5, 0):
                for fc in ("l2", "l1"):
                    cases.append(dict(kind="early-alg", solver="pdhg", prox=prox, sigma=sigma, theta=theta, fc=fc))
    for name in ("ConjugateGradient", "ConjugateGradient.illconditioned", "NewtonsMethod", "NewtonsMethod.backtracking", "GradientMethod", "GradientMethod.accel.box", "GradientMethod.plain",
                 "AltMin", "ADMM", "AugmentedLagrangianMethod", "GerchbergSaxton", "GerchbergSaxton.warm", "PowerMethod"):
        cases.append(dict(kind="early-alg", solver=name))
    for name in sorted(APPS):
        cases.append(dict(kind="early-app", app=name))
    from checks import c12
    for n in (1, 2, 3, 4, 6):
        for spn in c12.SPECTRA:
            if n == 1 and spn != "single":
                continue
            for U in ("I", "householder", "dft"):
                for start in (0, 1, 2):
                    cases.append(dict(kind="power", n=n, spectrum=spn, U=U, start=start))
                    if n >= 2:
                        cases.append(dict(kind="power", n=n, spectrum=spn, U=U, start=start, via="MaxEig"))
                if n in (2, 4) and spn in ("two", "geom100"):
                    # operators far from unit scale (largest eigenvalue below machine epsilon / very large), float32 too
                    for scale in (1e-20, 1e-9, 1e12):
                        for dt in ("c128", "c64"):
                            cases.append(dict(kind="power", n=n, spectrum=spn, U=U, start=1, scale=scale, dtype=dt))
    return cases


# ---------------------------------------------------------------- helpers
def state_of(alg, sol):
    arrs = tuple(snapshot.arr_digest(np.asarray(a)) for a in sol())
    scal = tuple(sorted((k, repr(v)) for k, v in vars(alg).items()
                        if isinstance(v, (int, float, bool, complex, np.generic)) and k != "iter"))
    return (int(alg.iter), arrs, scal)


def words(max_iter):
    for n in range(0, 2 * max_iter + 5):
        for w in itertools.product("ud", repeat=n):
            if w.count("u") <= max_iter + 2:
                yield w


def run_words(case):
    name, mi = case["solver"], case["max_iter"]
    viol = []
    seen_v = set()

    def V(oracle, when, detail):
        if (oracle, when) in seen_v:
            return
        seen_v.add((oracle, when))
        viol.append(dict(oracle=oracle, key=dict(site="alg." + name.split(".")[0], when=when), detail=detail + " (instance %s, max_iter=%d)" % (name, mi)))

    states = set()
    trans = nwords = 0
    for w in words(mi):
        alg, sol, brk = FACTORIES[name](mi)
        nwords += 1
        ever_over = False
        for i, ev in enumerate(w):
            hist = "".join(w[:i + 1])
            if ev == "d":
                before = state_of(alg, sol)
                d = alg.done()
                after = state_of(alg, sol)
                if before != after:
                    V("done-not-pure", "done() changes state", "history %s: done() changed the solver state" % hist)
                if alg.iter >= mi and not d:
                    V("done-false-past-budget", "iter >= max_iter", "history %s: iter=%d >= max_iter but done() is False" % (hist, alg.iter))
                states.add(after + (bool(d),))
            else:
                it0 = alg.iter
                try:
                    alg.update()
                except Exception as e:
                    if alg.iter >= mi:
                        break  # driving an object past its budget may be refused loudly
                    raise
                if alg.iter != it0 + 1:
                    V("iter-step", "update() advances iter", "history %s: update() moved iter from %d to %d" % (hist, it0, alg.iter))
                states.add(state_of(alg, sol) + (None,))
            trans += 1
    # canonical loop
    alg, sol, brk = FACTORIES[name](mi)
    cnt = 0
    while not alg.done():
        alg.update()
        cnt += 1
        if cnt > mi + 5:
            break
    if cnt > mi:
        V("budget-exceeded", "canonical loop", "while not done(): update() performed %d updates with max_iter=%d" % (cnt, mi))
    return dict(states=len(states), transitions=trans, traces=nwords, nontrivial=mi >= 1,
                outcome="ok" if not viol else "violation:" + viol[0]["oracle"], viol=viol)


def run_app(case):
    name, mi = case["app"], case["max_iter"]
    viol = []

    def V(oracle, when, detail):
        viol.append(dict(oracle=oracle, key=dict(site="app." + name, when=when), detail=detail + " (max_iter=%d)" % mi))
    np.random.seed(7)
    app = APPS[name](mi)
    alg = app.alg
    cnt = [0]
    orig = alg.update

    def counted():
        cnt[0] += 1
        return orig()
    alg.update = counted
    out = app.run()
    if cnt[0] > mi:
        V("budget-exceeded", "App.run()", "run() performed %d updates" % cnt[0])
    if alg.iter != cnt[0]:
        V("iter-step", "App.run()", "iter=%d after %d updates" % (alg.iter, cnt[0]))
    if name.startswith("LinearLeastSquares") or name == "L2ConstrainedMinimization":
        if out is not alg.x:
            V("returns-held-solution", "App.run()", "run() did not return the array the algorithm holds")
    if name == "MaxEig" and mi > 0 and out != alg.max_eig:
        V("returns-held-solution", "App.run()", "MaxEig.run() returned %r, algorithm holds %r" % (out, alg.max_eig))
    return dict(states=cnt[0] + 1, transitions=cnt[0], traces=1, nontrivial=mi >= 1,
                outcome="ok" if not viol else "violation:" + viol[0]["oracle"], viol=viol)


def _early(build, site, when_base, K, viol):
    """Canonical loop; on an early stop re-drive a fresh object for the remaining budget."""
    alg, sol, brk = build(K)
    k = 0
    while not alg.done():
        alg.update()
        k += 1
        if k > K + 2:
            viol.append(dict(oracle="budget-exceeded", key=dict(site=site, when=when_base), detail="%d updates with max_iter=%d" % (k, K)))
            return k, "over"
    if k >= K:
        return k, "budget"
    if brk():
        return k, "breakdown"
    if type(alg).__name__ == "ConjugateGradient":
        # an exactly zero residual is an optimality certificate: the system is solved, the stop is genuine even though
        # the recurrences are not meant to be driven beyond it (0/0 in beta)
        rt = np.asarray(alg.b) - np.asarray(alg.A(alg.x))
        if float(np.linalg.norm(rt)) <= 1e-10 * max(1e-300, float(np.linalg.norm(np.asarray(alg.b)))):
            return k, "early-certified-solution"
    stop_sol = [np.array(a) for a in sol()]
    alg2, sol2, brk2 = build(K)
    for _ in range(k):
        alg2.update()
    at_stop = [np.array(a) for a in sol2()]
    for _ in range(K - k):
        alg2.update()
    end = [np.array(a) for a in sol2()]
    moved = max(float(np.abs(e - s).max()) / max(1.0, float(np.abs(s).max())) for e, s in zip(end[:1], at_stop[:1]))
    if not np.isfinite(moved) or moved > 1e-9:
        viol.append(dict(oracle="early-stop-not-fixed-point", key=dict(site=site, when=when_base),
                         detail="done() turned true after %d of %d updates at x=%s, but driving the remaining budget moves the solution to %s (change %.3g)" % (
                             k, K, np.array2string(at_stop[0].ravel()[:4], precision=5), np.array2string(end[0].ravel()[:4], precision=5), moved)))
    return k, "early"


def run_early_gm(case):
    import sigpy as sp
    viol = []
    c, L, acc, x0v = case["c"], case["L"], case["acc"], case["x0"]
    alpha = (1.0 if case["alpha"] == "1/L" else 0.5) / L

    def build(K):
        dim = case["dim"]
        x = np.array([x0v, x0v * 0.5][:dim])
        d = np.array([L, L / 10.0][:dim])
        cc = np.array([c, 0.4][:dim])
        alg = sp.alg.GradientMethod(lambda v: d * (v - cc), x, alpha, proxg=sp.prox.BoxConstraint([dim], 0, 1),
                                    accelerate=acc, max_iter=K, tol=0)
        return alg, lambda: [x], lambda: False
    k, how = _early(build, "alg.GradientMethod", "accelerate=%s, box constraint" % acc, 80, viol)
    return dict(states=k + 1, transitions=k, traces=1, nontrivial=True, outcome=how if not viol else "violation:" + viol[0]["oracle"], viol=viol)


def run_early_alg(case):
    viol = []
    if case["solver"] == "pdhg":
        build = lambda K: f_pdhg(K, case["prox"], case["sigma"], case.get("theta", 1), case.get("fc", "l2"))  # noqa
        site, when = "alg.PrimalDualHybridGradient", "early stop, primal stalled"
    else:
        build = FACTORIES[case["solver"]]
        site, when = "alg." + case["solver"].split(".")[0], "early stop"
    k, how = _early(build, site, when, 80, viol)
    return dict(states=k + 1, transitions=k, traces=1, nontrivial=True, outcome=how if not viol else "violation:" + viol[0]["oracle"], viol=viol)


def run_early_app(case):
    viol = []
    name = case["app"]

    def build(K):
        np.random.seed(7)
        app = APPS[name](K)
        alg = app.alg
        return alg, (lambda: [np.asarray(getattr(alg, "x", np.zeros(1)))]), (lambda: bool(getattr(alg, "not_positive_definite", False)))
    k, how = _early(build, "app." + name, "early stop", 80, viol)
    return dict(states=k + 1, transitions=k, traces=1, nontrivial=True, outcome=how if not viol else "violation:" + viol[0]["oracle"], viol=viol)


def run_power(case):
    import sigpy as sp
    from checks import c12
    viol = []
    n = case["n"]
    U = c12.unitary(case["U"], n)
    w = np.array(c12.SPECTRA[case["spectrum"]](n), dtype=float)
    if case["start"] == 2 and n > 1:
        w = w.copy()
        w[0] = 0.0   # PSD, singular
    A = (U * w) @ U.conj().T
    A = (A + A.conj().T) / 2
    sc = case.get("scale", 1.0)
    cdt = np.complex64 if case.get("dtype") == "c64" else np.complex128
    if sc != 1.0 and cdt == np.complex64:
        sc = {1e-20: 1e-12, 1e-9: 1e-9, 1e12: 1e12}[sc]   # stay inside float32 range after squaring norms
    A = (sc * A).astype(cdt)
    lmax = float(np.linalg.eigvalsh(A.astype(np.complex128)).max())
    x = {0: np.ones(n, complex), 1: (np.cos(np.arange(n) + 1.0) + 1j * np.sin(np.arange(n) * 2.0 + 0.3)),
         2: U[:, -1] + 0.01 * np.ones(n)}[case["start"]].astype(cdt).copy()
    if case.get("via") == "MaxEig":
        # the App that the solvers use for their default step sizes (random start, its own normalisation)
        np.random.seed(1234 + case["start"])
        alg = sp.app.MaxEig(sp.linop.MatMul([n, 1], A), dtype=cdt, max_iter=30, show_pbar=False).alg
    else:
        alg = sp.alg.PowerMethod(sp.linop.MatMul([n, 1], A), x.reshape(n, 1), max_iter=30)
    xx = alg.x
    est = []
    while not alg.done():
        alg.update()
        est.append(float(alg.max_eig))
    if len(est) != 30:
        viol.append(dict(oracle="budget-exceeded", key=dict(site="alg.PowerMethod", when="loop"), detail="%d updates" % len(est)))
    for k in range(1, len(est)):
        rt = 1e-12 if cdt == np.complex128 else 2e-6
        if k >= 2 and not est[k] >= est[k - 1] * (1 - rt) - 1e-14 * sc:
            viol.append(dict(oracle="power-monotone", key=dict(site="alg.PowerMethod", when="estimate decreased"),
                             detail="estimate fell from %.15g to %.15g at update %d | %s" % (est[k - 1], est[k], k + 1, case)))
            break
        if not est[k] <= lmax * (1 + rt) + 1e-14 * sc:
            viol.append(dict(oracle="power-upper-bound", key=dict(site="alg.PowerMethod", when="estimate above lambda_max"),
                             detail="estimate %.15g exceeds lambda_max %.15g at update %d | %s" % (est[k], lmax, k + 1, case)))
            break
    return dict(states=len(est) + 1, transitions=len(est), traces=1, nontrivial=n >= 2,
                outcome="ok" if not viol else "violation:" + viol[0]["oracle"], viol=viol)


def run_case(case, seed):
    k = case["kind"]
    if k == "words":
        return run_words(case)
    if k == "app":
        return run_app(case)
    if k == "early-gm":
        return run_early_gm(case)
    if k == "early-alg":
        return run_early_alg(case)
    if k == "early-app":
        return run_early_app(case)
    return run_power(case)
