"""E3: operator expression trees up to k internal nodes, with a reference shape
calculus and a compositional dense-matrix reference (pure NumPy)."""
import itertools

import numpy as np

from vf.space import prod

# typed leaf alphabet on [2,3] and neighbours; "ish"/"osh" are reference shapes
LEAVES = [
    dict(op="FFT", shape=[2, 3], axes=[-1], center=True, ish=[2, 3], osh=[2, 3]),
    dict(op="Multiply", ishape=[2, 3], mult={"mshape": [2, 3]}, conj=False, ish=[2, 3], osh=[2, 3]),
    dict(op="Circshift", shape=[2, 3], shift=[1], axes=[1], ish=[2, 3], osh=[2, 3]),
    dict(op="Transpose", ishape=[2, 3], axes=None, ish=[2, 3], osh=[3, 2]),
    dict(op="Resize", oshape=[2, 5], ishape=[2, 3], ish=[2, 3], osh=[2, 5]),
    dict(op="Sum", shape=[2, 3], axes=[0], ish=[2, 3], osh=[3]),
    dict(op="Tile", shape=[2, 3], axes=[0], ish=[3], osh=[2, 3]),
    dict(op="MatMul", ishape=[2, 3], mshape=[2, 2], adjoint=False, ish=[2, 3], osh=[2, 3]),
    dict(op="Resize", oshape=[2, 2], ishape=[2, 3], ish=[2, 3], osh=[2, 2]),
    dict(op="Resize", oshape=[2, 3], ishape=[2, 4], ish=[2, 4], osh=[2, 3]),
    dict(op="Identity", shape=[3, 2], ish=[3, 2], osh=[3, 2]),
    dict(op="User", shape=[2, 3], ish=[2, 3], osh=[2, 3]),       # a user-defined Linop subclass (vf.opcat._user_class)
]
# extra operands for the ill-typed pairs only: shapes that coincide with the typed alphabet in size but not in shape, as a
# prefix or suffix of it, or up to singleton axes (what a zip()-based or size-based comparison would let through)
ILL_EXTRA = [
    dict(op="Reshape", oshape=[6], ishape=[2, 3], ish=[2, 3], osh=[6]),
    dict(op="Identity", shape=[6], ish=[6], osh=[6]),
    dict(op="Identity", shape=[2], ish=[2], osh=[2]),
    dict(op="Identity", shape=[2, 3, 1], ish=[2, 3, 1], osh=[2, 3, 1]),
    dict(op="Identity", shape=[1, 2, 3], ish=[1, 2, 3], osh=[1, 2, 3]),
    dict(op="Identity", shape=[2, 3, 2], ish=[2, 3, 2], osh=[2, 3, 2]),
]
# 3-D operands whose shapes repeat a value at another position ([2,3,2]: the length of axis 2 is also the length of axis 0)
# and differ along one axis only, so they stack along it: index bookkeeping by VALUE instead of by POSITION shows here
LEAVES3 = [
    dict(op="Identity", shape=[2, 3, 2], ish=[2, 3, 2], osh=[2, 3, 2]),
    dict(op="Multiply", ishape=[2, 3, 4], mult={"mshape": [2, 3, 4]}, conj=False, ish=[2, 3, 4], osh=[2, 3, 4]),
    dict(op="Identity", shape=[3, 2, 4], ish=[3, 2, 4], osh=[3, 2, 4]),
    dict(op="FFT", shape=[2, 2, 2], axes=[-1], center=True, ish=[2, 2, 2], osh=[2, 2, 2]),
    dict(op="Multiply", ishape=[2, 3, 3], mult={"mshape": [2, 3, 3]}, conj=True, ish=[2, 3, 3], osh=[2, 3, 3]),
    dict(op="Identity", shape=[3, 3, 2], ish=[3, 3, 2], osh=[3, 3, 2]),
    dict(op="Transpose", ishape=[2, 3, 2], axes=[2, 0, 1], ish=[2, 3, 2], osh=[2, 2, 3]),
]
SUB5 = [LEAVES[i] for i in (0, 1, 3, 4, 9)]
SUB3 = [LEAVES[i] for i in (1, 3, 9)]

SCALARS = [[2.0, -1.0], -0.5, {"np": "float32", "v": 3.0}, {"np": "complex64", "v": [0.5, 1.0]},
           1.000004, [1.0, 4e-6], {"np": "float32", "v": 1.000004}, 1, 0, -1, {"np": "int64", "v": 2}, True]


def scalar_val(c):
    if isinstance(c, dict):
        # the value the library actually sees: rounded to the NumPy scalar type
        v = getattr(np, c["np"])(scalar_val(c["v"]))
        return complex(v) if np.iscomplexobj(v) else float(v)
    if isinstance(c, list):
        return complex(c[0], c[1])
    return c


def strip(spec):
    """Spec without the reference annotations (what opcat.build sees)."""
    out = {k: v for k, v in spec.items() if k not in ("ish", "osh")}
    if "kids" in out:
        out["kids"] = [strip(k) for k in out["kids"]]
    return out


class IllTyped(Exception):
    pass


def _stack_shape(shapes, axis):
    """Reference shape of concatenating along axis (None: flattened)."""
    if axis is None:
        return [sum(prod(s) for s in shapes)]
    nd = len(shapes[0])
    if any(len(s) != nd for s in shapes):
        raise IllTyped("ndim differs")
    if not -nd <= axis < nd:
        raise IllTyped("axis out of range")
    a = axis % nd
    for s in shapes[1:]:
        for d in range(nd):
            if d != a and s[d] != shapes[0][d]:
                raise IllTyped("off-axis length differs")
    out = list(shapes[0])
    out[a] = sum(s[a] for s in shapes)
    return out


def ref_shapes(spec):
    """(ishape, oshape) by the documented rules; IllTyped if operands do not fit."""
    op = spec["op"]
    if "kids" not in spec:
        return list(spec["ish"]), list(spec["osh"])
    ks = [ref_shapes(k) for k in spec["kids"]]
    if op in ("Conj", "Neg", "LScale", "RScale", "IScale"):
        return ks[0]
    if op == "H":
        return ks[0][1], ks[0][0]
    if op == "N":
        return ks[0][0], ks[0][0]
    if op == "Compose":
        (ia, oa), (ib, ob) = ks
        if ia != ob:
            raise IllTyped("compose")
        return ib, oa
    if op in ("Add", "Sub", "IAdd", "ISub"):
        if ks[0] != ks[1]:
            raise IllTyped("add")
        return ks[0]
    if op == "IMul":
        (ia, oa), (ib, ob) = ks
        if ia != ob:
            raise IllTyped("compose")
        return ib, oa
    if op == "AddN":
        if any(k != ks[0] for k in ks):
            raise IllTyped("add")
        return ks[0]
    if op == "ComposeN":
        for a_, b_ in zip(ks[:-1], ks[1:]):
            if a_[0] != b_[1]:
                raise IllTyped("compose")
        return ks[-1][0], ks[0][1]
    if op == "Hstack":
        if any(k[1] != ks[0][1] for k in ks):
            raise IllTyped("oshape differs")
        return _stack_shape([k[0] for k in ks], spec.get("axis")), ks[0][1]
    if op == "Vstack":
        if any(k[0] != ks[0][0] for k in ks):
            raise IllTyped("ishape differs")
        return ks[0][0], _stack_shape([k[1] for k in ks], spec.get("axis"))
    if op == "Diag":
        return (_stack_shape([k[0] for k in ks], spec.get("iaxis")),
                _stack_shape([k[1] for k in ks], spec.get("oaxis")))
    raise ValueError(op)


def _blocks_index(shapes, axis):
    """For concatenation along axis: list of flat index arrays (C-order of each
    block) into the concatenated array."""
    tot = _stack_shape(shapes, axis)
    if axis is None:
        out, off = [], 0
        for s in shapes:
            out.append(np.arange(off, off + prod(s)))
            off += prod(s)
        return out
    idx = np.arange(prod(tot)).reshape(tot)
    a = axis % len(tot)
    out, off = [], 0
    for s in shapes:
        sl = [slice(None)] * len(tot)
        sl[a] = slice(off, off + s[a])
        out.append(idx[tuple(sl)].ravel())
        off += s[a]
    return out


def ref_matrix(spec, leafM):
    """Compositional dense reference.  leafM(spec) -> matrix of a leaf."""
    op = spec["op"]
    if "kids" not in spec:
        return leafM(spec)
    Ms = [ref_matrix(k, leafM) for k in spec["kids"]]
    if op == "Conj":
        return np.conj(Ms[0])
    if op == "H":
        return Ms[0].conj().T
    if op == "N":
        return Ms[0].conj().T @ Ms[0]
    if op == "Neg":
        return -Ms[0]
    if op in ("LScale", "RScale", "IScale"):
        return scalar_val(spec["c"]) * Ms[0]
    if op == "IAdd":
        return Ms[0] + Ms[1]
    if op == "ISub":
        return Ms[0] - Ms[1]
    if op == "IMul":
        return Ms[0] @ Ms[1]
    if op == "Compose":
        return Ms[0] @ Ms[1]
    if op == "Add":
        return Ms[0] + Ms[1]
    if op == "Sub":
        return Ms[0] - Ms[1]
    if op == "AddN":
        return sum(Ms[1:], Ms[0])
    if op == "ComposeN":
        M = Ms[0]
        for Mk in Ms[1:]:
            M = M @ Mk
        return M
    ks = [ref_shapes(k) for k in spec["kids"]]
    ish, osh = ref_shapes(spec)
    M = np.zeros((prod(osh), prod(ish)), dtype=complex)
    if op == "Hstack":
        cols = _blocks_index([k[0] for k in ks], spec.get("axis"))
        for Mk, c in zip(Ms, cols):
            M[:, c] = Mk
        return M
    if op == "Vstack":
        rows = _blocks_index([k[1] for k in ks], spec.get("axis"))
        for Mk, r in zip(Ms, rows):
            M[r, :] = Mk
        return M
    if op == "Diag":
        cols = _blocks_index([k[0] for k in ks], spec.get("iaxis"))
        rows = _blocks_index([k[1] for k in ks], spec.get("oaxis"))
        for Mk, r, c in zip(Ms, rows, cols):
            M[np.ix_(r, c)] = Mk
        return M
    raise ValueError(op)


def nnodes(spec):
    return 0 if "kids" not in spec else 1 + sum(nnodes(k) for k in spec["kids"])


def unary_variants(t, scalars=SCALARS):
    yield dict(op="Conj", kids=[t])
    yield dict(op="H", kids=[t])
    yield dict(op="Neg", kids=[t])
    for c in scalars:
        yield dict(op="LScale", c=c, kids=[t])
    for c in scalars[:2]:
        yield dict(op="RScale", c=c, kids=[t])
    yield dict(op="IScale", c=scalars[0], kids=[t])      # A *= c


def binary_variants(a, b, all_axes=True):
    """Well-typed binary combinations of a, b."""
    ia, oa = ref_shapes(a)
    ib, ob = ref_shapes(b)
    if ia == ob:
        yield dict(op="Compose", kids=[a, b])
    if (ia, oa) == (ib, ob):
        yield dict(op="Add", kids=[a, b])
        yield dict(op="Sub", kids=[a, b])
        yield dict(op="IAdd", kids=[a, b])               # A += B, A -= B: the augmented forms of the same algebra
        yield dict(op="ISub", kids=[a, b])
    if ia == ob:
        yield dict(op="IMul", kids=[a, b])               # A *= B
    for name, same, stack in (("Hstack", oa == ob, (ia, ib)), ("Vstack", ia == ib, (oa, ob))):
        if not same:
            continue
        axes = [None]
        if len(stack[0]) == len(stack[1]):
            nd = len(stack[0])
            axes += list(range(nd)) + (list(range(-nd, 0)) if all_axes else [])
        for ax in axes:
            try:
                _stack_shape(list(stack), ax)
            except IllTyped:
                continue
            yield dict(op=name, axis=ax, kids=[a, b])
    # Diag: independent iaxis / oaxis
    iax = [None] + (list(range(len(ia))) + (list(range(-len(ia), 0)) if all_axes else []) if len(ia) == len(ib) else [])
    oax = [None] + (list(range(len(oa))) + (list(range(-len(oa), 0)) if all_axes else []) if len(oa) == len(ob) else [])
    for i_ in iax:
        try:
            _stack_shape([ia, ib], i_)
        except IllTyped:
            continue
        for o_ in oax:
            try:
                _stack_shape([oa, ob], o_)
            except IllTyped:
                continue
            yield dict(op="Diag", iaxis=i_, oaxis=o_, kids=[a, b])


def trees(leaves, k, all_axes=True, scalars=SCALARS):
    """All well-typed trees with exactly k internal nodes."""
    memo = {0: list(leaves)}

    def T(j):
        if j in memo:
            return memo[j]
        out = []
        for t in T(j - 1):
            out.extend(unary_variants(t, scalars))
        for a_n in range(0, j):
            b_n = j - 1 - a_n
            for a in T(a_n):
                for b in T(b_n):
                    out.extend(binary_variants(a, b, all_axes))
        memo[j] = out
        return out

    return T(k)


def ill_typed_pairs(leaves):
    """Every ordered pair x binary combinator whose operands do NOT fit by the
    reference calculus (plus out-of-range axes)."""
    out = []
    for a in leaves:
        for b in leaves:
            cands = [dict(op="Compose", kids=[a, b]), dict(op="Add", kids=[a, b]), dict(op="Sub", kids=[a, b]),
                     dict(op="IAdd", kids=[a, b]), dict(op="ISub", kids=[a, b]), dict(op="IMul", kids=[a, b])]
            nd = max(len(a["ish"]), len(a["osh"]))
            for ax in [None] + list(range(-nd - 1, nd + 1)):
                cands.append(dict(op="Hstack", axis=ax, kids=[a, b]))
                cands.append(dict(op="Vstack", axis=ax, kids=[a, b]))
            dax = [None] + list(range(-nd, nd))
            for i_ in dax:
                for o_ in dax:
                    cands.append(dict(op="Diag", iaxis=i_, oaxis=o_, kids=[a, b]))
            for c in cands:
                try:
                    ref_shapes(c)
                except IllTyped:
                    out.append(c)
    return out


def nary_trees(leaves, arities=(3, 4), all_axes=True):
    """Well-typed n-ary (3 or 4 operands) sums, compositions and stacks over the leaf alphabet: the binary trees above
    never exercise the loops over the 3rd, 4th, ... operand (index bookkeeping of Hstack/Vstack/Diag, accumulation in Add)."""
    out = []
    for n in arities:
        for combo in itertools.product(leaves, repeat=n):
            shapes = [ref_shapes(k) for k in combo]
            if n == 4 and len({id(k) for k in combo}) > 2:
                continue   # 4 operands: at most two distinct leaves (keeps the product small)
            ish = [s_[0] for s_ in shapes]
            osh = [s_[1] for s_ in shapes]
            if all(s_ == shapes[0] for s_ in shapes):
                out.append(dict(op="AddN", kids=list(combo)))
            if all(ish[i] == osh[i + 1] for i in range(n - 1)):
                out.append(dict(op="ComposeN", kids=list(combo)))
            for name, same, stack in (("Hstack", all(o == osh[0] for o in osh), ish), ("Vstack", all(i_ == ish[0] for i_ in ish), osh)):
                if not same:
                    continue
                axes = [None]
                if all(len(s_) == len(stack[0]) for s_ in stack):
                    nd = len(stack[0])
                    axes += list(range(nd)) + (list(range(-nd, 0)) if all_axes else [])
                for ax in axes:
                    try:
                        _stack_shape(list(stack), ax)
                    except IllTyped:
                        continue
                    out.append(dict(op=name, axis=ax, kids=list(combo)))
            for i_ax in ([None] + (list(range(len(ish[0]))) if all(len(s_) == len(ish[0]) for s_ in ish) else [])):
                for o_ax in ([None] + (list(range(len(osh[0]))) if all(len(s_) == len(osh[0]) for s_ in osh) else [])):
                    try:
                        _stack_shape(ish, i_ax)
                        _stack_shape(osh, o_ax)
                    except IllTyped:
                        continue
                    out.append(dict(op="Diag", iaxis=i_ax, oaxis=o_ax, kids=list(combo)))
    return out
