"""C17 — ESPIRiT maps are unit-norm or zero, phase-referenced, and recover true maps.

Alphabet: k-space families (seeded complex Gaussian arrays; fully sampled data synthesised
as fft(birdcage maps x image)), 2-D and 3-D shapes, coils 2..8, calib_width, kernel_width,
thresh, crop, max_iter, complex64/complex128.
Oracle (invariants at every voxel of every instance): coil-vector norm is 1 or exactly 0;
zero exactly where eig <= crop; first coil real and >= 0; 0 <= eig <= 1; no NaN.
Recovery (calibration region inside k-space, >= 1.5x more block rows than columns,
>= 4 coils): | |maps| - |true| | <= 0.02 + 0.02 |true| on voxels >= 4 from the edge.
"""
import itertools

import numpy as np

PID = "C17"
LEVEL = "exploration"
ENGINE = "E1"
TECHNIQUE = ("bounded-exhaustive enumeration of a finite instance family (shapes x coils x calibration settings x k-space "
             "families) on the real EspiritCalib; voxel-wise invariants and recovery against the synthesising maps")
LEVEL_TEXT = ("ESPIRiT is non-linear, so no basis argument exists: the invariants are evaluated at every voxel of every instance "
              "of a finite, explicitly listed family (bounded-exhaustive over that family only).")
LEVEL_NOTE = "Recovery clause only under the stated preconditions; tolerance of the repository's own test (0.02 + 2%)."
RULE = ("product of shapes x coils x (calib_width, kernel_width) x thresh x crop x data family x dtype, thinned as listed in "
        "bounds; non-trivial = at least one voxel kept and (for crop in (0,1)) at least one voxel cropped or kept")
ASSUMPTIONS = ["numpy.random seeded before each run", "norm tolerance 1e-5 (complex64) / 1e-9 (complex128)"]
CHUNK = 4


def bounds(tier):
    return {"shapes": SH_T if tier == "thorough" else SH_Q, "coils": [2, 3, 4, 8], "calib/kernel": CK,
            "thresh": [0.02, 0.05, 0.5], "crop": [0, 0.8, 0.95, 1.1], "data": ["gaussian seeds 0..3" if tier == "quick" else "gaussian seeds 0..7", "birdcage x ones", "birdcage x bump", "birdcage with one zero coil (first / last)"],
            "max_iter": [30, 100], "dtype": ["complex64", "complex128"],
            "mixed pad/crop": "8 non-square shapes whose calibration width lies between the two axis lengths (4 with calib**2 == voxels)",
            "3-D recovery": "3 volumes (12^3, 10x12x14) with calib_width 8-10 <= every axis", "singleton axes": "6 shapes with one image axis of length one",
            "locality": "13 (shape, calib) pairs with k-space outside the centred calibration block replaced: maps must not change"}


SH_Q = [[8, 8], [9, 10], [12, 12], [16, 16], [6, 6, 6]]
SH_T = [[8, 8], [9, 10], [12, 12], [16, 16], [15, 16], [6, 6, 6], [10, 10, 10]]
CK = [(8, 3), (8, 4), (12, 3), (16, 3), (16, 4), (12, 6), (16, 6), (24, 6), (6, 3), (3, 3), (4, 4), (6, 6), (6, 1), (8, 2), (1, 1)]


def gen_cases(tier, seed):
    T = tier == "thorough"
    cases = []
    for sh in (SH_T if T else SH_Q):
        for nc in (2, 3, 4, 8):
            for cw, kw in CK:
                if len(sh) == 3 and (kw > 3 or cw > 8):
                    continue
                if kw > cw:
                    continue
                for th in (0.02, 0.05, 0.5):
                    for crop in (0, 0.8, 0.95, 1.1):
                        for data in (["g0", "g1"] if not T else ["g0", "g1", "g2", "g3", "g4", "g5", "g6", "g7"]) + ["ones", "bump"]:
                            if not T and (th == 0.05 and crop in (0, 1.1)):
                                continue
                            if th == 0.5 and (crop not in (0, 0.8) or cw not in (8, 3, 4, 6) or not (cw == 8 or cw == kw)):
                                continue   # high threshold / single calibration block: few kernels, small eigenvalues survive a low crop
                            if not T and nc == 3 and data.startswith("g"):
                                continue
                            for dt in ("c64", "c128"):
                                if dt == "c128" and not (T or (th == 0.02 and crop == 0.95)):
                                    continue
                                for mi in (30, 100):
                                    if mi == 100 and not (crop == 0.95 and th == 0.02):
                                        continue
                                    cases.append(dict(kind="espirit", shape=sh, nc=nc, calib=cw, kernel=kw, thresh=th, crop=crop,
                                                      data=data, dtype=dt, max_iter=mi))
    # the caller's k-space as a non-contiguous view (every other coil of a larger acquisition / transposed storage),
    # with calib_width == image width so that no padding copy is made on the way in
    for sh, cw in (([8, 8], 8), ([12, 12], 12)):
        for nc in (2, 4):
            for data in ("g0", "ones"):
                for lay in ("coil-stride", "fortran"):
                    cases.append(dict(kind="layout", shape=sh, nc=nc, calib=cw, kernel=3, thresh=0.02, crop=0.8, data=data, dtype="c128",
                                      max_iter=30, layout=lay))
    # non-square images whose calibration width exceeds one axis and not the other (the calibration block is zero-padded
    # along one axis and cropped along the other), including widths with calib**ndim == number of voxels
    for sh, cw, kw in (([9, 16], 12, 3), ([8, 18], 12, 3), ([16, 9], 12, 4), ([16, 36], 24, 6), ([18, 32], 24, 6), ([12, 20], 16, 4),
                       ([4, 16], 8, 3), ([2, 8], 4, 3)):
        for nc in (2, 4):
            for data in ("g0", "ones", "bump"):
                for crop in (0.8, 0.95):
                    cases.append(dict(kind="espirit", shape=sh, nc=nc, calib=cw, kernel=kw, thresh=0.02, crop=crop, data=data,
                                      dtype="c128" if sh[0] < 16 else "c64", max_iter=30))
                if data != "bump":
                    # locality: the maps are a function of the centred calib_width block of k-space only
                    cases.append(dict(kind="locality", shape=sh, nc=nc, calib=cw, kernel=kw, thresh=0.02, crop=0.8, data=data,
                                      dtype="c128", max_iter=30))
    for sh, cw, kw in (([12, 12], 8, 3), ([9, 10], 6, 3), ([6, 6, 6], 4, 3), ([4, 4, 9], 6, 3), ([3, 3, 8], 4, 2)):
        for nc in (2, 4):
            for data in ("g0", "ones"):
                cases.append(dict(kind="locality", shape=sh, nc=nc, calib=cw, kernel=kw, thresh=0.02, crop=0.8, data=data,
                                  dtype="c128", max_iter=30))
    # degenerate data: one coil's k-space is exactly zero (first coil: the phase reference is zero everywhere)
    for sh in ([8, 8], [12, 12], [9, 10]):
        for nc in (2, 4):
            for data in ("ones-dead0", "ones-deadL", "bump-dead0"):
                for crop in (0, 0.8):
                    for dt in ("c64", "c128"):
                        cases.append(dict(kind="espirit", shape=sh, nc=nc, calib=8, kernel=3, thresh=0.02, crop=crop, data=data, dtype=dt, max_iter=30))
    # a length-one image axis (single-slice volume, a single line)
    for sh, cw, kw in (([1, 12], 6, 3), ([12, 1], 6, 3), ([1, 8, 8], 6, 3), ([8, 1, 8], 6, 3), ([8, 8, 1], 4, 2), ([1, 9], 4, 2)):
        for nc in (2, 4):
            for data in ("g0", "ones"):
                for crop in (0, 0.3, 0.8):
                    cases.append(dict(kind="espirit", shape=sh, nc=nc, calib=cw, kernel=kw, thresh=0.02, crop=crop, data=data, dtype="c128", max_iter=30))
    # 3-D volumes whose calibration block is genuinely filled (calib_width <= every image axis): the recovery clause in 3-D
    for sh, cw, kw in (([12, 12, 12], 10, 3), ([12, 12, 12], 8, 3), ([10, 12, 14], 9, 3)):
        for data in ("ones", "bump"):
            for crop in (0.8, 0.95):
                cases.append(dict(kind="espirit", shape=sh, nc=4, calib=cw, kernel=kw, thresh=0.02, crop=crop, data=data, dtype="c128",
                                  max_iter=30, rec3d=True))
    # threshold ties: crop set EXACTLY to the eigenvalue of one voxel (taken from a first run with crop=0);
    # "zero where the eigenvalue does not exceed the crop threshold" => that voxel must be zero
    for sh in ([8, 8], [9, 10]):
        for nc in (2, 4):
            for data in ("g0", "g1", "ones"):
                for dt in ("c64", "c128"):
                    cases.append(dict(kind="tie", shape=sh, nc=nc, calib=8, kernel=3, thresh=0.02, crop=None, data=data, dtype=dt, max_iter=30))
    return cases


def make_ksp(case, seed):
    import sigpy as sp
    import sigpy.mri as mr
    sh, nc = case["shape"], case["nc"]
    dt = np.complex64 if case["dtype"] == "c64" else np.complex128
    d = case["data"]
    if d.startswith("g"):
        r = np.random.default_rng(1000 * int(d[1:]) + seed)
        ksp = (r.standard_normal([nc] + sh) + 1j * r.standard_normal([nc] + sh)).astype(dt)
        return ksp, None
    mps = mr.sim.birdcage_maps([nc] + sh).astype(np.complex128)
    if "-dead" in d:
        d, which = d.split("-dead")
        mps[0 if which == "0" else nc - 1] = 0      # a coil that sees nothing: zero map, zero k-space
    if d == "ones":
        img = np.ones(sh)
    else:
        grids = np.meshgrid(*[np.linspace(-1, 1, n) for n in sh], indexing="ij")
        img = 0.5 + np.exp(-2.0 * sum(g ** 2 for g in grids))
    ksp = sp.fft(mps * img, axes=range(-len(sh), 0)).astype(dt)
    return ksp, mps


def run_case(case, seed):
    import sigpy.mri as mr
    viol = []
    ksp, true = make_ksp(case, seed)
    k0 = ksp.copy()
    sh, nc = case["shape"], case["nc"]
    crop = case["crop"]
    when = "crop=%s" % crop

    def V(oracle, detail):
        viol.append(dict(oracle=oracle, key=dict(site="mri.app.EspiritCalib", when=when), detail=detail + " | " + str(case)))
    if case["kind"] == "tie":
        np.random.seed((seed + 99) % 2 ** 32)
        _, e0 = mr.app.EspiritCalib(ksp, calib_width=case["calib"], thresh=case["thresh"], kernel_width=case["kernel"],
                                    crop=0, max_iter=case["max_iter"], output_eigenvalue=True, show_pbar=False).run()
        vals = np.sort(np.asarray(e0).ravel())
        crop = float(vals[len(vals) // 2])
        when = "crop equal to a voxel's eigenvalue"
    if case["kind"] == "layout":
        np.random.seed((seed + 99) % 2 ** 32)
        m_c, e_c = mr.app.EspiritCalib(np.ascontiguousarray(ksp), calib_width=case["calib"], thresh=case["thresh"], kernel_width=case["kernel"],
                                       crop=crop, max_iter=case["max_iter"], output_eigenvalue=True, show_pbar=False).run()
        if case["layout"] == "coil-stride":
            big = np.zeros((2 * nc,) + tuple(sh), dtype=ksp.dtype)
            big[::2] = ksp
            ksp = big[::2]
        else:
            ksp = np.asfortranarray(ksp)
        k0 = ksp.copy()
        when = "non-contiguous k-space"
    if case["kind"] == "locality":
        # reference window: index n//2 of an axis lands on index calib//2 of the block (the documented centre alignment)
        inside = np.ones(sh, dtype=bool)
        for d, n in enumerate(sh):
            j = np.arange(n) - n // 2 + case["calib"] // 2
            ok = (j >= 0) & (j < case["calib"])
            inside &= ok.reshape([-1 if a == d else 1 for a in range(len(sh))])
        other = ksp.copy()
        r = np.random.default_rng(5 + seed)
        other[:, ~inside] = -2 * other[:, ~inside] + (r.standard_normal((nc, int((~inside).sum()))) + 0.5j)
        np.random.seed((seed + 99) % 2 ** 32)
        m_o, e_o = mr.app.EspiritCalib(other, calib_width=case["calib"], thresh=case["thresh"], kernel_width=case["kernel"],
                                       crop=crop, max_iter=case["max_iter"], output_eigenvalue=True, show_pbar=False).run()
        when = "k-space outside the calibration block changed"
    np.random.seed((seed + 99) % 2 ** 32)
    mps, eig = mr.app.EspiritCalib(ksp, calib_width=case["calib"], thresh=case["thresh"], kernel_width=case["kernel"],
                                   crop=crop, max_iter=case["max_iter"], output_eigenvalue=True, show_pbar=False).run()
    mps = np.asarray(mps)
    eig = np.asarray(eig)
    if eig.ndim == len(case["shape"]) + 1 and eig.shape[0] == 1:
        eig = eig[0]   # the eigenvalue map is returned with a leading singleton axis
    tol = 1e-5 if case["dtype"] == "c64" else 1e-9
    nvox = int(np.prod(sh))
    kept = None
    recovered_checked = False
    if list(mps.shape) != [nc] + sh:
        V("output-shape", "maps shape %s, k-space shape %s" % (list(mps.shape), [nc] + sh))
    elif not (np.all(np.isfinite(mps)) and np.all(np.isfinite(eig))):
        V("no-nan", "maps or eigenvalues contain non-finite values")
    else:
        nrm = np.sqrt(np.sum(np.abs(mps) ** 2, axis=0))
        zero = nrm == 0
        kept = ~zero
        bad = ~zero & (np.abs(nrm - 1) > tol)
        if bad.any():
            V("unit-norm-or-zero", "%d voxel(s) with coil-vector norm neither 1 nor 0 (worst %.6g)" % (int(bad.sum()), float(nrm[bad][np.argmax(np.abs(nrm[bad] - 1))])))
        if eig.shape == zero.shape:
            should_zero = eig <= crop
            if np.any(zero != should_zero):
                V("crop-rule", "%d voxel(s) where (map == 0) disagrees with (eig <= crop)" % int(np.sum(zero != should_zero)))
            if eig.min() < -tol or eig.max() > 1 + max(tol, 1e-6):
                V("eigenvalue-range", "eigenvalues in [%.6g, %.6g], expected [0, 1]" % (float(eig.min()), float(eig.max())))
        else:
            V("output-shape", "eigenvalue map shape %s" % (list(eig.shape),))
        first = mps[0]
        if np.abs(first.imag).max() > max(tol, 1e-7) or first.real.min() < -max(tol, 1e-7):
            V("phase-reference", "first coil not real non-negative: max|imag| %.3g, min real %.3g" % (float(np.abs(first.imag).max()), float(first.real.min())))
        # recovery
        # (a kernel of width 1 or 2 yields maps that are constant / linear across the field of view by construction, so the
        #  recovery clause - smooth but varying maps - is only meaningful from kernel_width 3 on)
        if true is not None and nc >= 4 and (len(sh) == 2 or case.get("rec3d")) and case["calib"] <= min(sh) and 0 < crop < 1 and case["kernel"] >= 3:
            rows = (case["calib"] - case["kernel"] + 1) ** len(sh)
            cols = nc * case["kernel"] ** len(sh)
            if rows >= 1.5 * cols:
                tn = true / np.sqrt(np.sum(np.abs(true) ** 2, axis=0, keepdims=True))
                inner = tuple(slice(4, n - 4) for n in sh)
                sel = (slice(None),) + inner
                if np.prod([n - 8 for n in sh]) > 0:
                    k_in = kept[inner]
                    diff = np.abs(np.abs(mps[sel]) - np.abs(tn[sel]))
                    lim = 0.02 + 0.02 * np.abs(tn[sel])
                    over = (diff > lim) & k_in[None]
                    recovered_checked = True
                    if not k_in.all():
                        V("recovery", "interior voxels were cropped although the data are fully sampled smooth maps (%d of %d kept)" % (int(k_in.sum()), k_in.size))
                    elif over.any():
                        V("recovery", "| |maps| - |true| | exceeds 0.02 + 2%% at %d interior entries (worst %.4g)" % (int(over.sum()), float(diff.max())))
    if case["kind"] == "layout" and not viol:
        if not (np.allclose(np.asarray(mps), np.asarray(m_c), atol=1e-9) and np.allclose(np.asarray(eig).ravel(), np.asarray(e_c).ravel(), atol=1e-9)):
            V("layout-invariance", "maps for a %s k-space view differ from the maps for its contiguous copy (max diff %.3g)" % (
                case["layout"], float(np.abs(np.asarray(mps) - np.asarray(m_c)).max())))
    if case["kind"] == "locality" and not viol:
        if (~inside).sum() == 0:
            raise RuntimeError("locality case without any k-space sample outside the calibration block")
        dm = float(np.abs(np.asarray(mps) - np.asarray(m_o)).max())
        if not dm <= 1e-9:
            V("calibration-locality", "changing only the %d k-space samples outside the centred calib_width block changed the maps by %.3g" % (
                int((~inside).sum()), dm))
    if ksp.tobytes() != k0.tobytes():
        V("input-mutated", "k-space array was modified")
    nontrivial = kept is not None and bool(kept.any())
    return dict(states=1, transitions=case["max_iter"], nontrivial=nontrivial,
                outcome=("ok%s:kept=%s" % ("+recovery" if recovered_checked else "", "all" if kept is not None and kept.all() else ("none" if kept is not None and not kept.any() else "some"))) if not viol else "violation:" + viol[0]["oracle"],
                viol=viol)
