"""Print the markdown table of seeded changes (for DESIGN.md 9.5) from seeded/*/meta.json."""
import glob, json, os, re
rows = []
for d in sorted(glob.glob(os.path.join(os.path.dirname(os.path.dirname(os.path.abspath(__file__))), "seeded", "*"))):
    mp = os.path.join(d, "meta.json")
    if not os.path.exists(mp):
        continue
    m = json.load(open(mp))
    patch = open(os.path.join(d, "patch.diff")).read()
    files = sorted(set(re.findall(r"^\+\+\+ b/(\S+)", patch, re.M)))
    det = ", ".join(m.get("detected_by", [])) or "-"
    miss = "yes -> strengthened" if m.get("initially_missed") else "no"
    rows.append("| `%s` | %s | %s | %s | %s |" % (os.path.basename(d), m["property"], ", ".join(f.replace("sigpy/", "") for f in files), det, miss))
print("| seeded change | property | file(s) | caught by | missed at first |\n|---|---|---|---|---|")
print("\n".join(rows))
