"""E2: history exploration on fresh real objects.

A state is the event history reaching it; live objects with closures do not
copy, so every history is rebuilt on a fresh object ("build(hist)").
``stateless``: every word over the alphabet up to depth d, no pruning (hidden
module-level state cannot be masked by state merging).
``bfs``: de-duplicating breadth-first continuation: a history is extended only
if the canonical state it reaches has not been seen.
"""
import itertools


def words(alphabet, max_len, min_len=1):
    for n in range(min_len, max_len + 1):
        for w in itertools.product(alphabet, repeat=n):
            yield w


def explore(alphabet, run_history, canon, d_stateless, d_bfs):
    """run_history(word) -> (state_obj, violations) executes the word on a fresh
    object, checking the invariant after every step.
    Returns dict(states, transitions, histories, viol, max_depth)."""
    seen = set()
    viol = []
    transitions = histories = 0
    frontier = []
    maxd = 0
    for w in words(alphabet, d_stateless):
        st, v = run_history(w)
        histories += 1
        transitions += len(w)
        viol.extend(v)
        k = canon(st)
        maxd = max(maxd, len(w))
        if len(w) == d_stateless and k not in seen:
            frontier.append(w)
        seen.add(k)
    depth = d_stateless
    while frontier and depth < d_bfs:
        nxt = []
        for w in frontier:
            for ev in alphabet:
                w2 = w + (ev,)
                st, v = run_history(w2)
                histories += 1
                transitions += len(w2)
                viol.extend(v)
                k = canon(st)
                maxd = max(maxd, len(w2))
                if k not in seen:
                    seen.add(k)
                    nxt.append(w2)
        frontier = nxt
        depth += 1
    return dict(states=len(seen), transitions=transitions, histories=histories, viol=viol, max_depth=maxd)
