"""C10 — the orthogonal wavelet transform is norm-preserving and perfectly invertible.

Alphabet: orthogonal wavelets (quick: haar db2 db4 sym4 coif1 db8; thorough: every
haar/dbN/symN/coifN PyWavelets lists) x shapes (1-3 dims, odd/even, shorter than
the filter) x every axes subset x level None/1/2/3 x real/complex.
Oracle: with W = M(fwt) (basis probing): W^H W = I (norm preserved for every
input), M(iwt) W = I (perfect reconstruction), M(iwt) = W^H (inverse is the
adjoint), fwt(x).shape == Wavelet(...).oshape, Linops agree with the functions.
"""
import numpy as np

from vf import dense, space

PID = "C10"
LEVEL = "exploration"
ENGINE = "E1"
TECHNIQUE = ("bounded-exhaustive enumeration of (wavelet, shape, axes, level, dtype) configurations on the real code; "
             "dense analysis/synthesis matrices by basis probing; finite matrix identities W^H W = I, M(iwt) = W^H")
LEVEL_TEXT = ("Each enumerated configuration is decided for all inputs through its dense matrices; the configuration space "
              "(all shapes, all levels) is only sampled on a bounded family of small shapes, hence exploration.")
LEVEL_NOTE = "Tolerance 1e-8 (PyWavelets' tabulated sym20 filter is orthogonal only to 2e-10); shapes <= 32 elements per axis."
RULE = ("product of wavelets x shapes x axes subsets x levels; non-trivial = at least one transformed axis longer than 1 "
        "and at least one decomposition level is actually performed (coefficient array differs from the padded input)")
ASSUMPTIONS = ["PyWavelets is the substrate; orthogonality is checked, not assumed"]
CHUNK = 6
Q_WAVES = ["haar", "db2", "db4", "sym4", "coif1", "db8"]


def all_orthogonal():
    import pywt
    out = []
    for fam in ("haar", "db", "sym", "coif"):
        out += pywt.wavelist(fam)
    return out


def bounds(tier):
    return {"wavelets": Q_WAVES if tier == "quick" else "all %d of haar/db/sym/coif" % len(all_orthogonal()),
            "shapes": SH_Q if tier == "quick" else SH_T, "axes": "every subset incl. negative, None",
            "levels": [None, 1, 2, 3], "dtype": ["complex128", "float64"]}


SH_Q = [[1], [2], [5], [8], [16], [3, 4], [5, 6], [2, 4, 2]]
SH_T = [[1], [2], [3], [5], [8], [13], [16], [32], [3, 4], [5, 6], [8, 8], [1, 6], [2, 4, 2], [3, 3, 3]]


def gen_cases(tier, seed):
    import pywt
    T = tier == "thorough"
    cases = []
    waves = all_orthogonal() if T else Q_WAVES
    for wv in waves:
        L = pywt.Wavelet(wv).dec_len
        for s in (SH_T if T else SH_Q):
            if L > 16 and (len(s) > 2 or dense.prod(s) > 36):
                continue
            if L > 40 and len(s) > 1 and dense.prod(s) > 12:
                continue
            for ax in space.axes_subsets(len(s)):
                if L > 16 and ax is not None and len(ax) > 1 and any(a < 0 for a in ax):
                    continue
                for lv in (None, 1, 2, 3):
                    if lv == 3 and (L > 8 or len(s) > 1) and not (T and L <= 8):
                        continue
                    if lv == 2 and L > 16 and len(s) > 1:
                        continue
                    for real in (False, True):
                        if real and (ax is not None and len(ax) > 1 or lv in (2, 3)):
                            continue
                        cases.append(dict(kind="wavelet", wave=wv, shape=s, axes=None if ax is None else list(ax),
                                          level=lv, real=real))
    return cases


def run_case(case, seed):
    import sigpy as sp
    wv, s, ax, lv = case["wave"], case["shape"], case["axes"], case["level"]
    axes = None if ax is None else tuple(ax)
    when = "level=%s%s" % (lv, ", negative axes" if ax is not None and any(a < 0 for a in ax) else "")
    viol = []

    def V(oracle, site, detail):
        viol.append(dict(oracle=oracle, key=dict(site=site, when=when), detail=detail + " (wavelet %s shape %s axes %s)" % (wv, s, ax)))

    dt = np.float64 if case["real"] else np.complex128
    A = sp.linop.Wavelet(s, axes=axes, wave_name=wv, level=lv)
    osh = list(A.oshape)
    cast = (lambda x: np.real(x).astype(dt)) if case["real"] else (lambda x: x.astype(dt))
    try:
        W = dense.dense_of(lambda x: sp.fwt(cast(x), wave_name=wv, axes=axes, level=lv), s, osh)
    except dense.ShapeError as e:
        V("advertised-shape", "wavelet.fwt", str(e))
        return dict(states=1, transitions=1, nontrivial=True, outcome="violation:advertised-shape", viol=viol)
    n = W.shape[1]
    trans = n
    e = dense.relerr(W.conj().T @ W, np.eye(n))
    if not e <= 1e-8:
        V("norm-preserving", "wavelet.fwt", "max|W^H W - I| = %.3g" % e)
    _, slices = sp.wavelet.get_wavelet_shape(s, wave_name=wv, axes=axes, level=lv)
    try:
        Wi = dense.dense_of(lambda c: sp.iwt(cast(c), s, slices, wave_name=wv, axes=axes, level=lv), osh, s)
        trans += Wi.shape[1]
        e = dense.relerr(Wi @ W, np.eye(n))
        if not e <= 1e-8:
            V("perfect-reconstruction", "wavelet.iwt", "max|M(iwt) W - I| = %.3g" % e)
        e = dense.relerr(Wi, W.conj().T)
        if not e <= 1e-8:
            V("inverse-is-adjoint", "wavelet.iwt", "max|M(iwt) - W^H| = %.3g" % e)
    except dense.ShapeError as ex:
        V("advertised-shape", "wavelet.iwt", str(ex))
    if not case["real"] and not viol:
        x = (dense.dense_vec(n, 3) * (1 - 1j)).reshape(s)
        y = A(x)
        ref = (W @ x.ravel()).reshape(osh)
        if list(y.shape) != osh or not np.abs(y - ref).max() <= 1e-8 * max(1, np.abs(ref).max()):
            V("linop-vs-function", "linop.Wavelet", "Linop result differs from W x")
        z = A.H(y)
        trans += 2
        if list(z.shape) != list(s) or not np.abs(z - x).max() <= 1e-7 * max(1, np.abs(x).max()):
            V("perfect-reconstruction", "linop.Wavelet.H", "A.H(A(x)) != x (err %.3g)" % np.abs(z - x).max())
    nd = len(s)
    tr_axes = range(nd) if ax is None else [a % nd for a in ax]
    padded = [((i + 1) // 2) * 2 for i in s]
    nontrivial = any(s[a] > 1 for a in tr_axes) and (osh != padded or not np.allclose(np.abs(W).max(axis=0), 1.0))
    return dict(states=1, transitions=trans, nontrivial=bool(nontrivial),
                outcome="ok" if not viol else "violation:" + viol[0]["oracle"], viol=viol)
