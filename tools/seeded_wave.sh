#!/bin/bash
# tools/seeded_wave.sh [tier] [parallel] [pattern]: run, for every seeded change (matching pattern), the check of the
# property it was written against; one line per change.  parallel = number of changes examined at the same time.
TIER="${1:-quick}"; PAR="${2:-1}"; PAT="${3:-C}"
HERE="$(dirname "$(dirname "$(readlink -f "$0")")")"
ls -d "$HERE"/seeded/${PAT}* | xargs -P "$PAR" -I{} bash -c 'd={}; n=$(basename $d); p=${n:0:3}; '"$HERE"'/tools/mutant.sh $d/patch.diff $p -- '"$TIER"' | cut -c1-260'
