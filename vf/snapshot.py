"""Walk an object graph and digest every ndarray reachable from it."""
import hashlib

import numpy as np


def arr_digest(a):
    a = np.asarray(a)
    h = hashlib.sha1()
    h.update(str(a.dtype).encode())
    h.update(str(a.shape).encode())
    h.update(np.ascontiguousarray(a).tobytes())
    return h.hexdigest()[:16]


def walk(obj, path="", seen=None, out=None, depth=0):
    """Collect {path: digest} of every ndarray reachable through attributes,
    lists, tuples and dicts (cycle-safe, Linop caches included)."""
    if seen is None:
        seen, out = set(), {}
    if id(obj) in seen or depth > 12:
        return out
    if isinstance(obj, np.ndarray):
        out[path] = arr_digest(obj)
        return out
    if isinstance(obj, (str, bytes, int, float, complex, type(None), bool, np.generic)):
        return out
    seen.add(id(obj))
    if isinstance(obj, (list, tuple)):
        for i, v in enumerate(obj):
            walk(v, "%s[%d]" % (path, i), seen, out, depth + 1)
    elif isinstance(obj, dict):
        for k in sorted(obj, key=str):
            walk(obj[k], "%s{%s}" % (path, k), seen, out, depth + 1)
    elif hasattr(obj, "__dict__"):
        for k in sorted(vars(obj)):
            if k in ("adj", "normal"):
                continue  # caches are walked separately so that cache state does not rename paths
            walk(vars(obj)[k], path + "." + k, seen, out, depth + 1)
        for k in ("adj", "normal"):
            v = vars(obj).get(k)
            if v is not None:
                walk(v, path + "." + k, seen, out, depth + 1)
    return out


def captured(obj):
    """Digest of arrays owned by the object ignoring the adjoint/normal caches'
    paths: set of digests (a cache only re-references or derives arrays)."""
    return walk(obj)
