"""C05 — fft/ifft are the centred unitary DFT and mutually inverse.

Alphabet: shapes (1-4 dims) x every axes subset incl. negative and None x
center x norm x (centred) output shapes that pad/crop/keep each axis x input
dtype x {fft, ifft}; plus the FFT/IFFT Linops.
Oracle: fft is linear, so its matrix (basis probing) is compared with the
Kronecker product of explicit DFT matrices F[k,n] = exp(-2 pi i (k-c)(n-c)/N) s
(c = N//2 centred, 0 otherwise) composed with the reference centre-aligned
pad/crop.  Unitarity, ifft(fft(x)) = x, Parseval and dtype preservation are
also asserted directly.
"""
import itertools

import numpy as np

from vf import dense, space
from vf.ref import indexmaps as im

PID = "C05"
LEVEL = "model_checking"
ENGINE = "E1"
TECHNIQUE = ("bounded-exhaustive enumeration of (shape, axes, center, norm, oshape, dtype) configurations on the real code; "
             "dense matrix by basis probing vs explicit Kronecker DFT reference matrices")
LEVEL_TEXT = ("Every configuration in the finite product is executed on the whole canonical basis and its matrix is compared "
              "with an explicit DFT-matrix reference, which decides the transform for all inputs of that configuration; "
              "inverse, unitarity and dtype clauses are asserted on the same matrices.")
LEVEL_NOTE = "Shapes <= 24 (quick) / 60 (thorough) elements, <= 4 dims; NumPy's pocketfft is the substrate, not the oracle."
RULE = ("full product of the listed domains; one case = one configuration (both fft and ifft); non-trivial = the "
        "reference matrix is not the identity (at least one transformed axis longer than 1, or a resize)")
ASSUMPTIONS = ["tolerance 1e-9 (complex128), 2e-5 where the library computes in single precision (complex64 and real inputs)"]
CHUNK = 40
DT = {"c128": np.complex128, "c64": np.complex64, "f64": np.float64, "f32": np.float32, "i64": np.int64, "bool": np.bool_}


def bounds(tier):
    return {"shapes": "1-3 dims over lengths 1..5, <= %d elements; 4 dims: <= %d elements%s" % (24 if tier == "quick" else 60, 16 if tier == "quick" else 24, "" if tier == "quick" else ", lengths <= 3; plus a band of longer axes 7, 8, 9, 11, 12, 16, 17, 2x7, 8x3, 6x6, 3x4x5 and one 5-D array"),
            "axes": "every subset of range(-ndim, ndim) without duplicates mod ndim, None, and the empty selection (identity)",
            "center": [True, False], "norm": ["ortho", None],
            "oshape": "centred only: 1-D n in 1..5 -> m in 1..7; 2-D/3-D: every per-axis choice from {n-1, n, n+1, n+2}",
            "dtypes": list(DT)}


def gen_cases(tier, seed):
    T = tier == "thorough"
    cases = []
    shp = space.shapes((1, 2, 3, 4), (1, 2, 3, 4, 5), 60 if T else 24)
    for s in shp:
        if len(s) == 4 and space.prod(s) > (24 if T else 16):
            continue
        if len(s) == 4 and T and max(s) > 3:
            continue
        for ax in space.axes_subsets(len(s), nonempty=False):
            if len(s) == 4 and ax is not None and not T and len(ax) in (2, 3) and any(a < 0 for a in ax) and any(a >= 0 for a in ax):
                continue  # quick: mixed-sign subsets of 4-D only in thorough
            for cen in (True, False):
                for norm in ("ortho", None):
                    for dt in DT:
                        if dt != "c128" and len(s) > 2 and norm is None and not (T and len(s) == 3):
                            continue
                        if dt in ("i64", "bool") and (len(s) > 2 or norm is None):
                            continue   # integer / boolean arrays (masks, label images): 1-D and 2-D, orthonormal scaling
                        if len(s) == 4 and dt in ("f32", "c64") and T and ax is not None and len(ax) > 1:
                            continue
                        cases.append(dict(kind="fft", shape=list(s), axes=None if ax is None else list(ax),
                                          center=cen, norm=norm, oshape=None, dtype=dt))
    if T:
        # a band of longer axes (prime, power of two, highly composite lengths) and one 5-D array
        for s in ([7], [8], [9], [11], [12], [16], [17], [2, 7], [8, 3], [6, 6], [3, 4, 5], [1, 2, 1, 2, 3]):
            for ax in space.axes_subsets(len(s), nonempty=False):
                if len(s) == 5 and ax is not None and len(ax) not in (1, 5):
                    continue
                for cen in (True, False):
                    for norm in ("ortho", None):
                        cases.append(dict(kind="fft", shape=list(s), axes=None if ax is None else list(ax),
                                          center=cen, norm=norm, oshape=None, dtype="c128"))
    # centred with output shapes
    for n in range(1, 6):
        for m in range(1, 8):
            for ax in (None, [0], [-1]):
                for norm in ("ortho", None):
                    for dt in ("c128", "f64"):
                        cases.append(dict(kind="fft", shape=[n], axes=ax, center=True, norm=norm, oshape=[m], dtype=dt))
    for s in [[2, 3], [3, 3], [4, 2], [1, 4]] + ([[2, 3, 2], [5, 4]] if T else [[2, 2, 3]]):
        for osh in itertools.product(*[sorted({max(1, n - 1), n, n + 1, n + 2}) for n in s]):
            if list(osh) == list(s):
                continue
            for ax in space.axes_subsets(len(s), nonempty=False):
                if not T and ax is not None and len(s) == 3 and len(ax) == 2:
                    continue
                for norm in ("ortho", None):
                    cases.append(dict(kind="fft", shape=list(s), axes=None if ax is None else list(ax),
                                      center=True, norm=norm, oshape=list(osh), dtype="c128"))
    # Linops
    for s in space.shapes((1, 2, 3), (1, 2, 3, 4, 5), 24):
        for ax in space.axes_subsets(len(s), nonempty=False):
            for cen in (True, False):
                cases.append(dict(kind="linop", shape=list(s), axes=None if ax is None else list(ax), center=cen))
    return cases


def dft_matrix(N, center, norm, inverse):
    c = N // 2 if center else 0
    k = np.arange(N) - c
    F = np.exp((2j if inverse else -2j) * np.pi * np.outer(k, k) / N)
    if norm == "ortho":
        F = F / np.sqrt(N)
    elif inverse:
        F = F / N
    return F


def ref_apply(x, oshape, axes, center, norm, inverse):
    x = np.asarray(x, dtype=np.complex128)
    if oshape is not None and list(oshape) != list(x.shape):
        src = im.resize_src(list(x.shape), list(oshape))
        x = im.apply_src(src, x)
    nd = x.ndim
    ax = range(nd) if axes is None else sorted({a % nd for a in axes})
    for a in ax:
        F = dft_matrix(x.shape[a], center, norm, inverse)
        x = np.moveaxis(np.tensordot(F, x, axes=([1], [a])), 0, a)
    return x


def run_case(case, seed):
    import sigpy as sp
    viol = []
    s = case["shape"]
    ax = case["axes"]
    axes = None if ax is None else tuple(ax)
    cen = case["center"]
    neg = ax is not None and any(a < 0 for a in ax)
    when = ("centred" if cen else "not centred") + (", negative axes" if neg else "")
    trans = 0
    if case["kind"] == "linop":
        for name, inverse in (("FFT", False), ("IFFT", True)):
            A = getattr(sp.linop, name)(s, axes=axes, center=cen)
            R = dense.dense_of(lambda x: ref_apply(x, None, ax, cen, "ortho", inverse), s, s)
            M = dense.dense_linop(A)
            trans += M.shape[1]
            e = dense.relerr(M, R)
            if not e <= 1e-9:
                viol.append(dict(oracle="dft-matrix", key=dict(site="linop." + name, when=when),
                                 detail="max|M - F_ref|/max|F_ref| = %.3g" % e))
            # the operators derived from it (adjoint = inverse under the orthonormal scaling, adjoint of the adjoint)
            for dname, D, Rd in ((".H", A.H, R.conj().T), (".H.H", A.H.H, R), (".H.H.H", A.H.H.H, R.conj().T)):
                Md = dense.dense_linop(D)
                trans += Md.shape[1]
                ed = dense.relerr(Md, Rd)
                if not ed <= 1e-9:
                    viol.append(dict(oracle="dft-matrix", key=dict(site="linop." + name + dname, when=when),
                                     detail="max|M(%s%s) - ref|/max|ref| = %.3g" % (name, dname, ed)))
            MN = dense.dense_linop(A.N)
            if not dense.relerr(MN, np.eye(M.shape[1])) <= 1e-9:
                viol.append(dict(oracle="unitary-shortcut", key=dict(site="linop.%s.N" % name, when=when), detail="A.N is not the identity"))
        nontriv = any(s[a % len(s)] > 1 for a in (range(len(s)) if ax is None else ax))
        return dict(states=2, transitions=trans, nontrivial=bool(nontriv),
                    outcome="ok" if not viol else "violation:" + viol[0]["oracle"], viol=viol)

    norm, osh, dtn = case["norm"], case["oshape"], case["dtype"]
    dt = DT[dtn]
    tol = 1e-9 if dtn == "c128" else 2e-5
    out_shape = list(osh) if osh is not None else list(s)
    if osh is not None:
        when += ", oshape"
    if dtn != "c128":
        when += ", " + dtn
    mats = {}
    for fname, inverse in (("fft", False), ("ifft", True)):
        fn = getattr(sp, fname)
        site = "fourier." + fname
        R = dense.dense_of(lambda x: ref_apply(x, osh, ax, cen, norm, inverse), s, out_shape)
        kw = dict(axes=axes, center=cen, norm=norm)
        if osh is not None:
            kw["oshape"] = osh
        dts = set()

        def call(x):
            xi = x.astype(dt) if np.issubdtype(dt, np.complexfloating) else np.real(x).astype(dt)
            x0 = xi.copy()
            y = fn(xi, **kw)
            dts.add(str(y.dtype))
            if xi.tobytes() != x0.tobytes():
                viol.append(dict(oracle="input-mutated", key=dict(site=site, when=when), detail="input changed"))
            return y
        try:
            M = dense.dense_of(call, s, out_shape)
        except dense.ShapeError as e:
            viol.append(dict(oracle="output-shape", key=dict(site=site, when=when), detail=str(e)))
            continue
        trans += M.shape[1]
        mats[fname] = (M, R)
        e = dense.relerr(M, R)
        if not e <= tol:
            viol.append(dict(oracle="dft-matrix", key=dict(site=site, when=when),
                             detail="max|M(%s) - F_ref|/max|F_ref| = %.3g (tol %g)" % (fname, e, tol)))
        if np.issubdtype(dt, np.complexfloating) and dts != {np.dtype(dt).name}:
            viol.append(dict(oracle="dtype-preserved", key=dict(site=site, when=when),
                             detail="input %s, output dtypes %s" % (np.dtype(dt).name, sorted(dts))))
        # linearity incl. complex homogeneity (complex dtypes only)
        if np.issubdtype(dt, np.complexfloating):
            bad = dense.linearity_defects(lambda x: fn(x.astype(dt), **kw), M, s, tol, pairs=False)
            trans += M.shape[1] + 2
            if bad:
                viol.append(dict(oracle="linearity", key=dict(site=site, when=when),
                                 detail="%s not C-linear on probe %s (err %.3g)" % ((fname,) + bad[0])))
    # inverse / unitarity / Parseval, asserted on the library's own matrices
    if "fft" in mats and "ifft" in mats and osh is None and not viol:
        Mf, Mi = mats["fft"][0], mats["ifft"][0]
        n = Mf.shape[1]
        if norm == "ortho":
            if not dense.relerr(Mi @ Mf, np.eye(n)) <= 10 * tol:
                viol.append(dict(oracle="inverse", key=dict(site="fourier.ifft(fft)", when=when), detail="ifft(fft(x)) != x"))
            if not dense.relerr(Mf.conj().T @ Mf, np.eye(n)) <= 10 * tol:
                viol.append(dict(oracle="unitary", key=dict(site="fourier.fft", when=when), detail="M^H M != I (norm not preserved)"))
        x = (dense.dense_vec(n, 5) * (1 - 2j)).astype(dt if np.issubdtype(dt, np.complexfloating) else np.complex128).reshape(s)
        if np.issubdtype(dt, np.complexfloating):
            y = sp.ifft(sp.fft(x, axes=axes, center=cen, norm=norm), axes=axes, center=cen, norm=norm)
            trans += 2
            if not np.abs(y - x).max() <= 10 * tol * max(1.0, np.abs(x).max()):
                viol.append(dict(oracle="inverse", key=dict(site="fourier.ifft(fft)", when=when), detail="round trip error %.3g" % np.abs(y - x).max()))
    nd = len(s)
    nontriv = any(s[a % nd] > 1 for a in (range(nd) if ax is None else ax)) or osh is not None
    return dict(states=1, transitions=trans, nontrivial=bool(nontriv),
                outcome="ok" if not viol else "violation:" + viol[0]["oracle"], viol=viol)
