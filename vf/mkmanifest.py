"""Regenerate MANIFEST.json from the check modules (python -m vf.mkmanifest)."""
import importlib
import json
import os
import sys

HOME = os.path.dirname(os.path.dirname(os.path.abspath(__file__)))
sys.path.insert(0, HOME)

ALL = ["C%02d" % i for i in range(1, 21)]
NOT_BUILT = {}


def main():
    checks, na = [], []
    for pid in ALL:
        path = os.path.join(HOME, "checks", pid.lower() + ".py")
        if not os.path.exists(path):
            na.append({"property_id": pid, "reason": NOT_BUILT.get(
                pid, "check not built yet in this round (planned, see DESIGN.md section 3); nothing is claimed")})
            continue
        m = importlib.import_module("checks." + pid.lower())
        checks.append({
            "property_id": pid,
            "quick_cmd": "./check %s quick" % pid,
            "thorough_cmd": "./check %s thorough" % pid,
            "evidence_file": "/verif/evidence/%s.json" % pid,
            "replay_cmd_template": "./check %s --replay {path}" % pid,
            "engine": getattr(m, "ENGINE", "E1"),
            "level_claimed": {"category": m.LEVEL, "text": m.LEVEL_TEXT,
                              "design_ref": "DESIGN.md section 3, " + pid},
            "level_note": m.LEVEL_NOTE,
            "technique": m.TECHNIQUE,
        })
    man = {
        "version": 1,
        "setup_cmd": "cd /verif && chmod +x check && /venv/bin/python -c \"import sys; sys.path.insert(0,'/verif'); import vf.cli, vf.pool, vf.dense\"",
        "hooks": {
            "guard": "SIGPY_VERIF",
            "enable": "no source hooks are needed: every observation goes through public API and attributes; "
                      "checks import /repo's working tree directly (editable install / PYTHONPATH)",
            "baseline_off_cmd": "cd /repo && /venv/bin/python -m pytest -ra -q -p no:cacheprovider --timeout=900 --continue-on-collection-errors",
            "source_commits": [],
            "add_only": True,
        },
        "engines": [
            {"name": "E1", "path": "/verif/vf/space.py", "serves_properties": ALL,
             "kind_free_text": "configuration lattice: full products / deviation-bounded enumeration of small parameter alphabets, run on the real code under a fork pool with a kill watchdog (vf/pool.py)"},
            {"name": "E2", "path": "/verif/vf/history.py", "serves_properties": ["C02", "C12", "C13", "C15", "C18", "C19"],
             "kind_free_text": "history explorer: every call sequence over a small alphabet up to a depth, each rebuilt on a fresh real object, state hashing by array digests, invariant in every state"},
            {"name": "E3", "path": "/verif/vf/programs.py", "serves_properties": ["C01", "C02", "C03", "C04", "C11"],
             "kind_free_text": "program enumerator: every operator expression tree / prox nesting up to k internal nodes, compared with a compositional dense-matrix reference"},
        ],
        "checks": checks,
        "not_applicable": na,
        "notes": "All checks are hand-written bounded-exhaustive explorers driving the real sigpy code (no Python explicit-state explorer is installed). Exit 0/1/2 = held / violation / harness error. known_findings.json lists fixed and known defects.",
    }
    with open(os.path.join(HOME, "MANIFEST.json"), "w") as f:
        json.dump(man, f, indent=1)
    print("checks:", [c["property_id"] for c in checks], "not_applicable:", [n["property_id"] for n in na])


if __name__ == "__main__":
    main()
