"""Developer aid: run a check's cases in-process (pool) and group violations."""
import collections, importlib, json, os, sys
for _k in ("OMP_NUM_THREADS", "OPENBLAS_NUM_THREADS", "MKL_NUM_THREADS", "NUMBA_NUM_THREADS"):
    os.environ.setdefault(_k, "1")
sys.path.insert(0, os.environ.get("VERIF_HOME", "/verif"))
from vf import cli, pool

def main():
    pid, tier = sys.argv[1], sys.argv[2]
    mod = importlib.import_module("checks." + pid.lower())
    cli._MOD = mod
    cli._NDET = 0
    import sigpy
    cases = mod.gen_cases(tier, 0)
    if len(sys.argv) > 3:
        cases = [c for c in cases if sys.argv[3] in json.dumps(c)]
    if hasattr(mod, "warmup"): mod.warmup()
    res, _ = pool.run_pool(cli._run_one, cases, 16, 120)
    groups = collections.OrderedDict()
    for c, r in zip(cases, res):
        if r is None: continue
        if r.get("harness_error"):
            groups.setdefault(("HARNESS", r["harness_error"].strip().splitlines()[-1][:150]), []).append((c, r["harness_error"][-700:]))
            continue
        if r.get("no_return") or r.get("crash"):
            groups.setdefault(("NORETURN", ""), []).append((c, "")); continue
        for v in r["viol"]:
            groups.setdefault((v["oracle"], json.dumps(v["key"], sort_keys=True)), []).append((c, v["detail"]))
    for k, lst in groups.items():
        print("==", k, len(lst))
        for c, d in lst[:int(os.environ.get("NSHOW", "2"))]:
            print("    ", json.dumps(c, default=str)[:400]); print("       ->", str(d)[:400])
main()
