"""Operator catalogue: JSON-able specs -> real sigpy Linops, and the leaf
configuration alphabets of DESIGN.md Appendix A (shared by C01, C02, C03, C04).

A spec is a dict {"op": <name>, ...params}; combinators carry "kids".
Arrays captured by operators are generated deterministically from
(seed, spec) - VERIF_SEED changes values only, never what is enumerated.
"""
import hashlib
import itertools
import json

import numpy as np

from vf import space


# every array handed to a constructor is recorded here (array, pristine copy) so that a check can verify that
# building and applying an operator never modifies the arrays it was built from
CREATED = []


def _record(a):
    CREATED.append((a, a.copy()))
    return a


def _rng(seed, spec, tag=""):
    h = hashlib.sha1((json.dumps(spec, sort_keys=True, default=str) + tag + str(seed)).encode()).digest()
    return np.random.default_rng(int.from_bytes(h[:8], "little"))


def carray(shape, seed, spec, tag="", dyadic=False, real=False):
    r = _rng(seed, spec, tag)
    if dyadic:
        vals = np.array([0.5, -0.5, 1, -1, 2, -2, 0.5j, -1j, 2j, 1 + 1j, 0.5 - 0.5j])
        if real:
            vals = np.array([0.5, -0.5, 1, -1, 2, -2])
        return _record(vals[r.integers(0, len(vals), size=shape)].astype(np.float64 if real else np.complex128))
    a = r.standard_normal(shape)
    if real:
        return _record(a)
    return _record(a + 1j * r.standard_normal(shape))


def coords(family, grid, npts, seed, spec, centered=False):
    """Coordinate sets for interpolation-type operators.  grid: transform
    shape; returns array (npts, ndim) float64.  ``centered``: NUFFT convention
    (range -n/2..n/2) instead of 0..n."""
    nd = len(grid)
    r = _rng(seed, spec, "coord" + family)
    if family == "random":
        c = np.stack([r.uniform(0, n, size=npts) for n in grid], axis=-1)
    elif family == "tie":
        base = [-2.5, -0.75, 0.0, 0.5, 1.25, 1.0, 2.5, -0.5]
        c = np.empty((npts, nd))
        for d, n in enumerate(grid):
            seq = base + [n - 1.0, n - 0.5, n + 2.5, n / 2.0, n + 0.0]
            for j in range(npts):
                c[j, d] = seq[(j * (d + 1) + 3 * d) % len(seq)]
    elif family == "outside":
        c = np.empty((npts, nd))
        for d, n in enumerate(grid):
            seq = [-3.0 * n - 0.5, 4.0 * n + 0.25, -n - 1.0, 2.0 * n, 7.5 * n]
            for j in range(npts):
                c[j, d] = seq[(j + d) % len(seq)]
    elif family == "dup":
        p = np.array([0.75 + 0.5 * d for d in range(nd)])
        q = np.array([n - 0.25 for n in grid])
        c = np.stack([p if j % 3 != 2 else q for j in range(npts)], axis=0)
    elif family == "huge":
        # far outside the grid with a fractional part that single precision cannot hold
        c = np.empty((npts, nd))
        for d, n in enumerate(grid):
            seq = [1.0e6 + 0.37, -2.0e6 - 0.61, 3.0e5 + 0.125, -7.0e5 + 0.45, 1.5e6 + 0.9]
            for j in range(npts):
                c[j, d] = seq[(j + 2 * d) % len(seq)]
    elif family == "ongrid":
        c = np.stack([r.integers(0, n, size=npts).astype(float) for n in grid], axis=-1)
    elif family == "half":
        c = np.stack([r.integers(0, n, size=npts) + 0.5 for n in grid], axis=-1)
    elif family == "cluster":
        c = np.stack([n / 3.0 + 1e-3 * r.standard_normal(npts) for n in grid], axis=-1)
    else:
        raise ValueError(family)
    c = np.asarray(c, dtype=np.float64).reshape(npts, nd)
    if centered:
        c = c - np.array([n // 2 for n in grid], dtype=np.float64)
    return _record(c)


def dec_idx(idx):
    out = []
    for it in idx:
        if isinstance(it, list):
            out.append(slice(*it))
        else:
            out.append(int(it))
    return tuple(out) if len(out) != 1 or not isinstance(idx, tuple) else out[0]


def scalar_of(v):
    """[re, im] -> python complex; float -> float; {"np": "float32", "v": x}."""
    if isinstance(v, dict):
        return getattr(np, v["np"])(scalar_of(v["v"]))
    if isinstance(v, list):
        return complex(v[0], v[1])
    return v


TRACK = None    # set to a list to record (spec, object) for every node built, operands before the operator made from them


def build(spec, seed=0):
    """Build the real operator for a spec (every node is recorded in TRACK when that is a list)."""
    obj = _build(spec, seed)
    if TRACK is not None:
        TRACK.append((spec, obj))
    return obj


_USER = {}


def _user_class():
    """A Linop written by a user of the library (not one of the built-in classes): element-wise weights followed by a
    cyclic shift of the flattened array.  Combinators must treat it like any other operator."""
    if "cls" not in _USER:
        from sigpy import linop as L

        class UserWeightedShift(L.Linop):
            def __init__(self, shape, w, adjoint=False):
                self.w = w
                self.adjoint = adjoint
                super().__init__(shape, shape)

            def _apply(self, input):
                if self.adjoint:
                    return np.conj(self.w) * np.roll(input.ravel(), -1).reshape(input.shape)
                return np.roll((self.w * input).ravel(), 1).reshape(input.shape)

            def _adjoint_linop(self):
                return UserWeightedShift(self.ishape, self.w, not self.adjoint)
        _USER["cls"] = UserWeightedShift
    return _USER["cls"]


def _build(spec, seed=0):
    import sigpy as sp
    from sigpy import linop as L
    op = spec["op"]
    g = spec.get
    if op == "User":
        return _user_class()(spec["shape"], carray(spec["shape"], seed, spec, "w"))
    if op == "Identity":
        return L.Identity(spec["shape"])
    if op == "Reshape":
        return L.Reshape(spec["oshape"], spec["ishape"])
    if op == "Transpose":
        ax = g("axes")
        return L.Transpose(spec["ishape"], axes=None if ax is None else tuple(ax))
    if op in ("FFT", "IFFT"):
        ax = g("axes")
        return getattr(L, op)(spec["shape"], axes=None if ax is None else tuple(ax), center=g("center", True))
    if op == "Multiply":
        m = spec["mult"]
        if "scalar" in m:
            mult = scalar_of(m["scalar"])
        elif "idtype" in m:
            # multiplier stored in a narrow integer / bool / half-precision dtype (a 0/255 mask, int8 weights):
            # values near the top of the type's range, so that arithmetic done IN that dtype overflows
            r = _rng(seed, spec, "imult")
            top = {"uint8": 255, "int8": 127, "int16": 32767, "bool": 1, "float16": 300}[m["idtype"]]
            vals = np.array([top, top - 1, 0, 1, top // 2, 2])
            mult = _record(vals[r.integers(0, len(vals), size=m["mshape"])].astype(m["idtype"]))
        else:
            mult = carray(m["mshape"], seed, spec, "mult", dyadic=m.get("dyadic", False))
        return L.Multiply(spec["ishape"], mult, conj=g("conj", False))
    if op in ("MatMul", "RightMatMul"):
        mat = carray(spec["mshape"], seed, spec, "mat", dyadic=g("dyadic", False))
        return getattr(L, op)(spec["ishape"], mat, adjoint=g("adjoint", False))
    if op == "Resize":
        return L.Resize(spec["oshape"], spec["ishape"], ishift=g("ishift"), oshift=g("oshift"))
    if op == "Flip":
        ax = g("axes")
        return L.Flip(spec["shape"], axes=None if ax is None else tuple(ax))
    if op == "Downsample":
        return L.Downsample(spec["shape"], spec["factors"], shift=g("shift"))
    if op == "Upsample":
        return L.Upsample(spec["shape"], spec["factors"], shift=g("shift"))
    if op == "Circshift":
        return L.Circshift(spec["shape"], spec["shift"], axes=g("axes"))
    if op == "Sum":
        return L.Sum(spec["shape"], tuple(spec["axes"]))
    if op == "Tile":
        return L.Tile(spec["shape"], tuple(spec["axes"]))
    if op == "ArrayToBlocks":
        return L.ArrayToBlocks(spec["shape"], spec["B"], spec["S"])
    if op == "BlocksToArray":
        return L.BlocksToArray(spec["shape"], spec["B"], spec["S"])
    if op == "FiniteDifference":
        return L.FiniteDifference(spec["shape"], axes=g("axes"))
    if op == "Slice":
        return L.Slice(spec["shape"], _idx(spec["idx"]))
    if op == "Embed":
        return L.Embed(spec["shape"], _idx(spec["idx"]))
    if op in ("Interpolate", "Gridding"):
        grid = spec["grid"]
        c = coords(spec["coord"], grid, spec["npts"], seed, spec)
        if g("pts2"):
            c = c.reshape(2, -1, len(grid))
        if g("cdtype") == "f32":
            c = c.astype(np.float32)
        shape = list(g("batch", [])) + list(grid)
        w = spec.get("width", 2)
        w = tuple(w) if isinstance(w, list) else w
        prm = spec.get("param", 1)
        prm = tuple(prm) if isinstance(prm, list) else prm
        return getattr(L, op)(shape, c, kernel=g("kernel", "spline"), width=w, param=prm)
    if op in ("NUFFT", "NUFFTAdjoint"):
        grid = spec["grid"]
        c = coords(spec["coord"], grid, spec["npts"], seed, spec, centered=True)
        shape = list(g("batch", [])) + list(grid)
        kw = dict(oversamp=g("oversamp", 1.25), width=g("width", 4))
        if op == "NUFFT":
            kw["toeplitz"] = g("toeplitz", False)
        return getattr(L, op)(shape, c, **kw)
    if op in ("ConvolveData", "ConvolveDataAdjoint"):
        filt = carray(spec["fshape"], seed, spec, "filt", real=g("real", False))
        return getattr(L, op)(spec["dshape"], filt, mode=g("mode", "full"), strides=g("strides"),
                              multi_channel=g("mc", False))
    if op in ("ConvolveFilter", "ConvolveFilterAdjoint"):
        data = carray(spec["dshape"], seed, spec, "data", real=g("real", False))
        return getattr(L, op)(spec["fshape"], data, mode=g("mode", "full"), strides=g("strides"),
                              multi_channel=g("mc", False))
    if op in ("Wavelet", "InverseWavelet"):
        ax = g("axes")
        return getattr(L, op)(spec["shape"], axes=None if ax is None else tuple(ax),
                              wave_name=g("wave", "db4"), level=g("level"))
    if op == "Sense":
        import sigpy.mri as mr
        img = spec["img"]
        nc = spec["nc"]
        mps = carray([nc] + img, seed, spec, "mps")
        coord = None
        if g("coord"):
            coord = coords(g("coord"), img, spec["npts"], seed, spec, centered=True)
        weights = None
        if g("weights"):
            wshape = [spec["npts"]] if coord is not None else img
            weights = _record(np.abs(carray(wshape, seed, spec, "w", real=True)) + 0.1)
        tseg = None
        if g("tseg"):
            b0 = _record(carray(img, seed, spec, "b0", real=True) * 10)
            tseg = {"b0": b0, "dt": 1e-3, "lseg": g("tseg")["lseg"], "n_bins": g("tseg")["n_bins"]}
        return mr.linop.Sense(mps, coord=coord, weights=weights, tseg=tseg,
                              coil_batch_size=g("batch_size"))
    if op == "ConvSense":
        import sigpy.mri as mr
        ker = carray([spec["nc"]] + spec["mker"], seed, spec, "mker")
        coord = weights = None
        if g("coord"):
            coord = coords(g("coord"), spec["grd"], spec["npts"], seed, spec, centered=True)
        if g("weights"):
            grd_ = [i - m + 1 for i, m in zip(spec["iker"], spec["mker"])]
            wshape = [spec["nc"], spec["npts"]] if coord is not None else [spec["nc"]] + grd_
            weights = _record(np.abs(carray(wshape, seed, spec, "w", real=True)) + 0.1)
        return mr.linop.ConvSense(spec["iker"], ker, coord=coord, weights=weights, grd_shape=g("grd"))
    if op == "ConvImage":
        import sigpy.mri as mr
        ker = carray(spec["iker"], seed, spec, "iker")
        coord = weights = None
        if g("coord"):
            coord = coords(g("coord"), spec["grd"], spec["npts"], seed, spec, centered=True)
        if g("weights") and coord is not None:
            weights = _record(np.abs(carray([spec["nc"], spec["npts"]], seed, spec, "w", real=True)) + 0.1)
        return mr.linop.ConvImage([spec["nc"]] + spec["mker"], ker, coord=coord, weights=weights,
                                  grd_shape=g("grd"))
    if op == "PtxSpatialExplicit":
        from sigpy.mri.rf import linop as rl
        img = spec["img"]
        sens = carray([spec["nc"]] + img, seed, spec, "sens")
        coord = carray([spec["nt"], len(img)], seed, spec, "c", real=True)
        b0 = _record(carray(img, seed, spec, "b0", real=True) * 5) if g("b0") else None
        return rl.PtxSpatialExplicit(sens, coord, 4e-6, img, b0=b0)
    # ---- combinators
    if op == "Conj":
        return L.Conj(build(spec["kids"][0], seed))
    if op == "H":
        return build(spec["kids"][0], seed).H
    if op == "N":
        return build(spec["kids"][0], seed).N
    if op == "Compose":
        a, b = [build(k, seed) for k in spec["kids"]]
        return a * b
    if op == "Add":
        a, b = [build(k, seed) for k in spec["kids"]]
        return a + b
    if op == "Sub":
        a, b = [build(k, seed) for k in spec["kids"]]
        return a - b
    if op in ("IAdd", "ISub", "IMul"):
        a, b = [build(k, seed) for k in spec["kids"]]
        if op == "IAdd":
            a += b
        elif op == "ISub":
            a -= b
        else:
            a *= b
        return a
    if op == "IScale":
        a = build(spec["kids"][0], seed)
        a *= scalar_of(spec["c"])
        return a
    if op == "Neg":
        return -build(spec["kids"][0], seed)
    if op == "LScale":
        return scalar_of(spec["c"]) * build(spec["kids"][0], seed)
    if op == "RScale":
        return build(spec["kids"][0], seed) * scalar_of(spec["c"])
    if op == "AddN":
        return L.Add([build(k, seed) for k in spec["kids"]])
    if op == "ComposeN":
        return L.Compose([build(k, seed) for k in spec["kids"]])
    if op == "Hstack":
        return L.Hstack([build(k, seed) for k in spec["kids"]], axis=g("axis"))
    if op == "Vstack":
        return L.Vstack([build(k, seed) for k in spec["kids"]], axis=g("axis"))
    if op == "Diag":
        return L.Diag([build(k, seed) for k in spec["kids"]], oaxis=g("oaxis"), iaxis=g("iaxis"))
    raise ValueError("unknown op " + op)


def _idx(idx):
    out = []
    for it in idx:
        out.append(slice(*it) if isinstance(it, list) else int(it))
    return tuple(out)


def pretty(spec):
    op = spec["op"]
    if "kids" in spec:
        extra = {k: v for k, v in spec.items() if k not in ("op", "kids")}
        return "%s(%s%s)" % (op, ", ".join(pretty(k) for k in spec["kids"]),
                             (", " + json.dumps(extra, sort_keys=True)) if extra else "")
    return "%s%s" % (op, json.dumps({k: v for k, v in spec.items() if k != "op"}, sort_keys=True))


# --------------------------------------------------------------------------
# leaf configuration alphabets (Appendix A)
# --------------------------------------------------------------------------

def _perms_signed(nd):
    out = []
    for p in itertools.permutations(range(nd)):
        out.append(list(p))
    for p in itertools.permutations(range(nd)):
        # every sign pattern would be 2^nd; take all-negative and alternating
        out.append([a - nd for a in p])
        if nd > 1:
            out.append([a - nd if i % 2 == 0 else a for i, a in enumerate(p)])
    seen, res = set(), []
    for p in out:
        if tuple(p) not in seen:
            seen.add(tuple(p))
            res.append(p)
    return res


def _bcast_patterns(ishape):
    """mshape patterns broadcast-compatible with ishape."""
    nd = len(ishape)
    pats = [list(ishape)]
    for mask in itertools.product((0, 1), repeat=nd):
        m = [1 if b else s for s, b in zip(ishape, mask)]
        if m not in pats:
            pats.append(m)
    for k in range(1, nd):
        m = list(ishape[k:])
        if m not in pats:
            pats.append(m)
    pats.append([2] + list(ishape))  # more dims than the input
    pats.append([2] + [1] * nd)
    if any(s == 1 for s in ishape):
        m = [3 if s == 1 else s for s in ishape]  # input size-1 axis expanded by mult
        pats.append(m)
    return pats


def leaf_specs(tier, classes=None):
    """All leaf configurations.  Ordered simplest-first within each class."""
    T = tier == "thorough"
    S = []
    E = 24 if not T else 40
    L5 = (1, 2, 3, 4, 5)

    def add(spec):
        if classes is None or spec["op"] in classes:
            S.append(spec)

    sh123 = space.shapes((1, 2, 3), L5, E)
    sh12 = space.shapes((1, 2), L5, E)
    sh23 = space.shapes((2, 3), (1, 2, 3, 4), E)
    small = space.shapes((1, 2, 3), (1, 2, 3), 12)

    for s in sh123:
        add(dict(op="Identity", shape=list(s)))
    # Reshape: every factorisation of the element count into <= 3 dims
    for s in space.shapes((1, 2, 3), (1, 2, 3, 4), 24):
        n = space.prod(s)
        for o in space.shapes((1, 2, 3), (1, 2, 3, 4, 6, 8, 12), 24):
            if space.prod(o) == n and o != s and (T or len(o) <= 2 or len(s) <= 2):
                add(dict(op="Reshape", oshape=list(o), ishape=list(s)))
    for s in sh23:
        add(dict(op="Transpose", ishape=list(s), axes=None))
        for p in _perms_signed(len(s)):
            add(dict(op="Transpose", ishape=list(s), axes=p))
    for s in sh123:
        for ax in space.axes_subsets(len(s)):
            for cen in (True, False):
                for op in ("FFT", "IFFT"):
                    add(dict(op=op, shape=list(s), axes=None if ax is None else list(ax), center=cen))
    for s in (small if not T else space.shapes((1, 2, 3), (1, 2, 3), 27)):
        for cj in (False, True):
            add(dict(op="Multiply", ishape=list(s), mult={"scalar": [2.0, -1.0]}, conj=cj))
            add(dict(op="Multiply", ishape=list(s), mult={"scalar": 1}, conj=cj))
            add(dict(op="Multiply", ishape=list(s), mult={"scalar": {"np": "complex64", "v": [0.5, 1.0]}}, conj=cj))
            for m in _bcast_patterns(list(s)):
                add(dict(op="Multiply", ishape=list(s), mult={"mshape": m}, conj=cj))
            if list(s) in ([3], [2, 3]):
                for idt in ("uint8", "int8", "int16", "bool", "float16"):
                    add(dict(op="Multiply", ishape=list(s), mult={"mshape": list(s), "idtype": idt}, conj=cj))
                    add(dict(op="Multiply", ishape=list(s), mult={"mshape": list(s)[-1:], "idtype": idt}, conj=cj))
    # MatMul / RightMatMul: (..., m, n), batch patterns
    for m_, n_, k_ in itertools.product((1, 2, 3), repeat=3):
        if not T and (m_, n_, k_) not in ((1, 1, 1), (2, 3, 1), (3, 2, 2), (2, 2, 3), (1, 3, 2), (3, 1, 2)):
            continue
        for adj in (False, True):
            mat_core = [m_, n_] if not adj else [n_, m_]
            pats = [([], []), ([2], [2]), ([1], [2]), ([2], [1]), ([], [2]), ([2], []),
                    ([2, 1], [3]), ([1, 2], [2, 1]), ([], [1]), ([], [1, 1]), ([2], [1, 2]), ([1], [1, 1])]
            if T or (m_, n_, k_) in ((2, 3, 1), (1, 1, 1)):
                # every pair of batch prefixes of rank 0-2 over sizes {1, 2} (all broadcast-compatible)
                pre = [[]] + [[a] for a in (1, 2)] + [[a, b] for a in (1, 2) for b in (1, 2)]
                pats += [(a, b) for a in pre for b in pre if (a, b) not in pats]
            for bi, bm in pats:
                add(dict(op="MatMul", ishape=bi + [n_, k_], mshape=bm + mat_core, adjoint=adj))
                rcore = [n_, m_] if not adj else [m_, n_]
                add(dict(op="RightMatMul", ishape=bi + [k_, n_], mshape=bm + rcore, adjoint=adj))
    for ish in space.shapes((1, 2), (1, 2, 3, 4), 12):
        for osh in itertools.product(*[sorted({max(1, n - 2), max(1, n - 1), n, n + 1, n + 2}) for n in ish]):
            add(dict(op="Resize", oshape=list(osh), ishape=list(ish)))
    for n in range(1, 5):
        for m in range(1, 5):
            for si in range(n):
                for so in range(m):
                    add(dict(op="Resize", oshape=[m], ishape=[n], ishift=[si], oshift=[so]))
                add(dict(op="Resize", oshape=[m], ishape=[n], ishift=[si], oshift=None))
            for so in range(m):
                add(dict(op="Resize", oshape=[m], ishape=[n], ishift=None, oshift=[so]))
    for s in space.shapes((1, 2, 3), (1, 2, 3, 4), E):
        for ax in space.axes_subsets(len(s)):
            add(dict(op="Flip", shape=list(s), axes=None if ax is None else list(ax)))
    for s in space.shapes((1, 2), (1, 2, 3, 4, 5, 6, 7), 21):
        for f in itertools.product((1, 2, 3, 4), repeat=len(s)):
            # start offsets below the factor, plus (1-D) every offset inside the axis - also >= the factor
            shifts = [None] + [list(t) for t in itertools.product(*[range(min(fi, ni)) for fi, ni in zip(f, s)])]
            if len(s) == 1:
                shifts += [[k] for k in range(min(f[0], s[0]), s[0])]
            elif f[0] < s[0] and f[-1] < s[-1]:
                shifts += [[s[0] - 1, 0], [f[0], f[-1]]]
            for sft in shifts:
                add(dict(op="Downsample", shape=list(s), factors=list(f), shift=sft))
                add(dict(op="Upsample", shape=list(s), factors=list(f), shift=sft))
    for s in space.shapes((1, 2, 3), (1, 2, 3, 4), 16 if T else 12):
        nd = len(s)
        for ax in space.axes_subsets(nd, ordered=True):
            k = nd if ax is None else len(ax)
            pool = list(itertools.product((-2, -1, 0, 1, 5), repeat=k))
            if k == 2:
                pool = pool[::3] if T else pool[::7]
            if k == 3:
                pool = pool[::11] if T else pool[::31]
            for sh in pool:
                add(dict(op="Circshift", shape=list(s), shift=list(sh), axes=None if ax is None else list(ax)))
    for s in sh23:
        for ax in space.axes_subsets(len(s), include_none=False):
            add(dict(op="Sum", shape=list(s), axes=list(ax)))
            add(dict(op="Tile", shape=list(s), axes=list(ax)))

    # a thin band of 4-D and 5-D arrays for the operators that are generic in the number of dimensions (several leading
    # batch axes): loops over axes / hard-coded "last three axes" assumptions do not show in 1-3 dims
    for s in ([2, 1, 2, 3], [1, 2, 2, 2], [2, 2, 1, 1, 2]):
        nd = len(s)
        add(dict(op="Identity", shape=list(s)))
        add(dict(op="Reshape", oshape=[space.prod(s)], ishape=list(s)))
        add(dict(op="Reshape", oshape=list(s), ishape=[space.prod(s)]))
        add(dict(op="Transpose", ishape=list(s), axes=None))
        add(dict(op="Transpose", ishape=list(s), axes=list(range(1, nd)) + [0]))
        add(dict(op="Transpose", ishape=list(s), axes=[-1] + list(range(nd - 1))))
        for ax in (None, [0], [-1], [0, -1], [1, 2], list(range(nd)), [-2, 0], [nd - 1, 1]):
            for cen in (True, False):
                add(dict(op="FFT", shape=list(s), axes=ax, center=cen))
                add(dict(op="IFFT", shape=list(s), axes=ax, center=cen))
            add(dict(op="Flip", shape=list(s), axes=ax))
            add(dict(op="FiniteDifference", shape=list(s), axes=ax))
            if ax is not None:
                add(dict(op="Sum", shape=list(s), axes=ax))
                add(dict(op="Tile", shape=list(s), axes=ax))
                add(dict(op="Circshift", shape=list(s), shift=[(-1) ** i * (i + 1) for i in range(len(ax))], axes=ax))
        add(dict(op="Circshift", shape=list(s), shift=list(range(1, nd + 1)), axes=None))
        for cj in (False, True):
            for m in ([s[-1]], list(s), [s[0]] + [1] * (nd - 1), [1] * (nd - 2) + list(s[-2:]), list(s[1:])):
                add(dict(op="Multiply", ishape=list(s), mult={"mshape": m}, conj=cj))
        add(dict(op="Resize", oshape=[max(1, v - 1) if i % 2 else v + 1 for i, v in enumerate(s)], ishape=list(s)))
        add(dict(op="Resize", oshape=[v + 1 if i % 2 else max(1, v - 1) for i, v in enumerate(s)], ishape=list(s)))
        add(dict(op="Downsample", shape=list(s), factors=[1 + (i % 2) for i in range(nd)], shift=None))
        add(dict(op="Upsample", shape=list(s), factors=[2 - (i % 2) for i in range(nd)], shift=None))
        add(dict(op="MatMul", ishape=list(s), mshape=[3, s[-2]], adjoint=False))
        add(dict(op="MatMul", ishape=list(s), mshape=list(s[:-2]) + [s[-2], 2], adjoint=True))
        add(dict(op="RightMatMul", ishape=list(s), mshape=[s[-1], 3], adjoint=False))
        add(dict(op="ArrayToBlocks", shape=list(s), B=[1, 2], S=[1, 1]))
        add(dict(op="BlocksToArray", shape=list(s), B=[1, 2], S=[1, 1]))

    def blk(D, Ns, Bs, Ss):
        for N in itertools.product(Ns, repeat=D):
            for B in itertools.product(Bs, repeat=D):
                if any(b > n for b, n in zip(B, N)):
                    continue
                for St in itertools.product(Ss, repeat=D):
                    for batch in ([], [2]):
                        for op in ("ArrayToBlocks", "BlocksToArray"):
                            add(dict(op=op, shape=batch + list(N), B=list(B), S=list(St)))
    blk(1, range(1, 8), (1, 2, 3), (1, 2, 3))
    blk(2, (2, 3, 4) if not T else (2, 3, 4, 5), (1, 2, 3) if T else (1, 2), (1, 2, 3))
    blk(3, (2, 3) if not T else (2, 3, 4), (1, 2), (1, 2) if not T else (1, 2, 3))
    for s in space.shapes((1, 2, 3), (1, 2, 3, 4), 16):
        for ax in space.axes_subsets(len(s)):
            add(dict(op="FiniteDifference", shape=list(s), axes=None if ax is None else list(ax)))
    # Slice / Embed
    ab = (None, 0, 1, -1)
    cc = (None, 1, 2, -1)
    sl1 = [[a, b, c] for a in ab for b in ab for c in cc]
    for it in sl1:
        if np.empty(4)[slice(*it)].size > 0:
            add(dict(op="Slice", shape=[4], idx=[it]))
            add(dict(op="Embed", shape=[4], idx=[it]))
    pick = [[None, None, None], [1, None, None], [None, -1, 2], [None, None, -1], [0, 2, None], 1, -1]
    for i0 in pick:
        for i1 in pick:
            idx = [i0, i1]
            if np.empty((3, 4))[_idx(idx)].size > 0 and np.empty((3, 4))[_idx(idx)].ndim > 0:
                add(dict(op="Slice", shape=[3, 4], idx=idx))
                add(dict(op="Embed", shape=[3, 4], idx=idx))
    for idx in ([[None, None, None]], [1], [[None, None, -1], 0], [[0, 1, None], [None, None, 2], -1]):
        if np.empty((2, 3, 2))[_idx(idx)].size > 0:
            add(dict(op="Slice", shape=[2, 3, 2], idx=idx))
            add(dict(op="Embed", shape=[2, 3, 2], idx=idx))
    # Interpolate / Gridding
    kerns = [("spline", 0), ("spline", 1), ("spline", 2), ("kaiser_bessel", 2.0), ("kaiser_bessel", 8.0),
             ("kaiser_bessel", 13.9)]
    widths = [2, 1, 1.5, 2.5, 3, 4]
    grids = [[4], [1], [5], [3, 4], [1, 3], [2, 2, 3]] if not T else [[4], [1], [5], [7], [3, 4], [1, 3], [4, 5], [2, 2, 3], [3, 1, 2]]
    for grid in grids:
        for (kn, prm) in (("spline", 1), ("kaiser_bessel", 8.0)):
            for op in ("Interpolate", "Gridding"):
                add(dict(op=op, grid=grid, batch=[], coord="huge", npts=5, kernel=kn, width=2.5, param=prm))
        for fam in ("tie", "outside", "dup", "random"):
            for (kn, prm) in kerns:
                for w in widths:
                    if not T and fam in ("outside", "dup") and w not in (2, 2.5):
                        continue
                    for batch in ([], [2]):
                        if batch and (w not in (2, 1.5) or fam not in ("tie", "random")):
                            continue
                        for op in ("Interpolate", "Gridding"):
                            add(dict(op=op, grid=grid, batch=batch, coord=fam, npts=5, kernel=kn, width=w, param=prm))
        if len(grid) > 1:
          for wl in ([[2.5, 1], [1, 2.5]] if len(grid) == 2 else [[2.5, 1, 3], [3, 1.5, 2], [2, 3, 1.5]]):
            for (kn, prm) in kerns[1::2]:
                  for op in ("Interpolate", "Gridding"):
                      add(dict(op=op, grid=grid, batch=[], coord="tie", npts=6, kernel=kn, width=wl, param=prm, pts2=True))
                      add(dict(op=op, grid=grid, batch=[], coord="random", npts=4, kernel=kn, width=wl,
                               param=[prm] * len(grid), cdtype="f32"))
                      # per-axis kernel parameters that differ between the axes
                      pl = ([0, 2, 1] if kn == "spline" else [2.0, 8.0, 4.0])[:len(grid)]
                      add(dict(op=op, grid=grid, batch=[], coord="tie", npts=5, kernel=kn, width=wl, param=pl))
                      add(dict(op=op, grid=grid, batch=[], coord="random", npts=5, kernel=kn, width=3, param=pl[::-1]))
    # NUFFT / NUFFTAdjoint
    ngrids = [[4], [5], [1], [3, 4], [2, 2, 3]] if not T else [[4], [5], [1], [6], [3, 4], [4, 4], [1, 3], [2, 2, 3], [3, 2, 2]]
    for grid in ngrids:
        for fam in ("random", "ongrid", "half", "cluster", "outside"):
            for (osf, w) in ((1.25, 4), (2, 4), (1.5, 3), (1.375, 6)) if T else ((1.25, 4), (2, 4), (1.5, 3)):
                for batch in ([], [2]):
                    if batch and (fam != "random" or osf != 1.25):
                        continue
                    add(dict(op="NUFFT", grid=grid, batch=batch, coord=fam, npts=5, oversamp=osf, width=w))
                    add(dict(op="NUFFTAdjoint", grid=grid, batch=batch, coord=fam, npts=5, oversamp=osf, width=w))
                    add(dict(op="NUFFT", grid=grid, batch=batch, coord=fam, npts=5, oversamp=osf, width=w, toeplitz=True))
    # Convolve*
    for D in (1, 2, 3):
        lens = (1, 2, 3, 4) if D == 1 else ((1, 2, 3) if D == 2 else (1, 2))
        for m in itertools.product(lens, repeat=D):
            for n in itertools.product(lens, repeat=D):
                if D == 3 and not T and (sum(m) + sum(n)) % 2:
                    continue
                for mode in ("full", "valid"):
                    if mode == "valid" and not (all(a >= b for a, b in zip(m, n)) or all(a < b for a, b in zip(m, n))):
                        continue  # mixed longer/shorter axes are not admitted by valid mode (C08 decides their rejection)
                    for st in ([None] + [list(t) for t in itertools.product((1, 2, 3), repeat=D) if any(x > 1 for x in t)][:: (1 if D == 1 else 3)]):
                        for mc, batch in ((False, []), (False, [2]), (True, []), (True, [2])):
                            if (mc or batch) and D > 1 and (st is not None or not T):
                                if not (D == 2 and st is None and m == (3, 2) and n in ((2, 2), (1, 2))):
                                    continue
                            if mc:
                                for ci, co in ((1, 1), (2, 1), (1, 2), (2, 2)):
                                    ds, fs = batch + [ci] + list(m), [co, ci] + list(n)
                                    for op in ("ConvolveData", "ConvolveDataAdjoint", "ConvolveFilter", "ConvolveFilterAdjoint"):
                                        add(dict(op=op, dshape=ds, fshape=fs, mode=mode, strides=st, mc=True))
                            else:
                                ds, fs = batch + list(m), list(n)
                                for op in ("ConvolveData", "ConvolveDataAdjoint", "ConvolveFilter", "ConvolveFilterAdjoint"):
                                    add(dict(op=op, dshape=ds, fshape=fs, mode=mode, strides=st, mc=False))
                                    if D == 1 and not batch and st in (None, [2]) and op.startswith("ConvolveData"):
                                        # real-dtype filter, complex inputs (real DATA with a complex filter is refused loudly by the library)
                                        add(dict(op=op, dshape=ds, fshape=fs, mode=mode, strides=st, mc=False, real=True))
    # Wavelet
    waves = ("db4", "haar", "db2", "sym4", "coif1")
    for s in ([8], [5], [4, 4], [3, 6], [2, 4, 2]) if not T else ([8], [5], [12], [4, 4], [3, 6], [5, 5], [2, 4, 2], [3, 3, 3]):
        for ax in space.axes_subsets(len(s)):
            for wv in waves:
                for lv in (None, 1, 2):
                    if not T and lv == 2 and wv not in ("haar", "db2"):
                        continue
                    if ax is not None and len(ax) > 1 and not T and wv not in ("haar", "db4"):
                        continue
                    for op in ("Wavelet", "InverseWavelet"):
                        add(dict(op=op, shape=s, axes=None if ax is None else list(ax), wave=wv, level=lv))
    # ---- a band of larger 1-D (and a few 2-D) sizes: defects that only appear above a small size threshold
    for n in (9, 12, 13, 16, 17):
        for cen in (True, False):
            add(dict(op="FFT", shape=[n], axes=None, center=cen))
            add(dict(op="IFFT", shape=[n], axes=[-1], center=cen))
        for sh in (4, -7, n + 1):
            add(dict(op="Circshift", shape=[n], shift=[sh], axes=None))
        add(dict(op="Flip", shape=[n], axes=None))
        for m in (n - 5, n + 5, n + 7):
            add(dict(op="Resize", oshape=[m], ishape=[n]))
            add(dict(op="Resize", oshape=[n], ishape=[m]))
        for f in (5, 6):
            for sft in (None, [0], [4]):
                add(dict(op="Downsample", shape=[n], factors=[f], shift=sft))
                add(dict(op="Upsample", shape=[n], factors=[f], shift=sft))
        for B in (4, 5):
            for St in (1, 3, 4, 5, 6):
                for op in ("ArrayToBlocks", "BlocksToArray"):
                    add(dict(op=op, shape=[n], B=[B], S=[St]))
        for w in (5, 6):
            for op in ("Interpolate", "Gridding"):
                add(dict(op=op, grid=[n], batch=[], coord="random", npts=7, kernel="kaiser_bessel", width=w, param=6.0))
        add(dict(op="NUFFT", grid=[n], batch=[], coord="random", npts=9, oversamp=1.25, width=4))
        add(dict(op="NUFFT", grid=[n], batch=[], coord="random", npts=9, oversamp=1.25, width=4, toeplitz=True))
        add(dict(op="NUFFTAdjoint", grid=[n], batch=[], coord="random", npts=9, oversamp=1.5, width=3))
        for wv, lv in (("db4", None), ("db4", 2), ("haar", 3), ("sym4", 1)):
            add(dict(op="Wavelet", shape=[n], axes=None, wave=wv, level=lv))
            add(dict(op="InverseWavelet", shape=[n], axes=[0], wave=wv, level=lv))
        add(dict(op="FiniteDifference", shape=[n], axes=None))
        add(dict(op="ConvolveData", dshape=[n], fshape=[5], mode="valid", strides=[3], mc=False))
        add(dict(op="ConvolveFilter", dshape=[n], fshape=[6], mode="full", strides=[4], mc=False))
    for s2 in ([9, 4], [3, 12], [5, 5, 2]):
        add(dict(op="FFT", shape=s2, axes=[0, -1], center=True))
        add(dict(op="Transpose", ishape=s2, axes=None))
        add(dict(op="Sum", shape=s2, axes=[0]))
        add(dict(op="Tile", shape=s2, axes=[-1]))
        add(dict(op="Multiply", ishape=s2, mult={"mshape": s2[-1:]}, conj=False))
        if len(s2) == 2:
            add(dict(op="ArrayToBlocks", shape=s2, B=[3, 2], S=[2, 3]))
            add(dict(op="BlocksToArray", shape=s2, B=[3, 2], S=[2, 3]))
    for nc in (5, 6):
        for bs in [None] + list(range(1, nc + 1)):
            add(dict(op="Sense", img=[2, 3], nc=nc, batch_size=bs, coord=None, npts=7, weights=True))
            add(dict(op="Sense", img=[2, 3], nc=nc, batch_size=bs, coord="random", npts=7, weights=False))
    # Conj of a handful of operators
    for k in (dict(op="FFT", shape=[2, 3], axes=[-1], center=True),
              dict(op="Multiply", ishape=[2, 3], mult={"mshape": [2, 3]}, conj=False),
              dict(op="MatMul", ishape=[3, 2], mshape=[2, 3], adjoint=False),
              dict(op="Circshift", shape=[4], shift=[1], axes=None),
              dict(op="Interpolate", grid=[4], batch=[], coord="random", npts=5, kernel="spline", width=2, param=1),
              dict(op="NUFFT", grid=[4], batch=[], coord="random", npts=5, oversamp=1.25, width=4),
              dict(op="ConvolveData", dshape=[4], fshape=[2], mode="full", strides=None, mc=False)):
        if classes is None or "Conj" in classes:
            S.append(dict(op="Conj", kids=[k]))
    # MRI factories
    for img in ([2, 3], [3, 3], [4, 4], [2, 2, 3]):
        for nc in (1, 2, 3, 4):
            if not T and nc == 4 and img != [2, 3]:
                continue
            for bs in [None] + list(range(1, nc + 1)):
                for cf in (None, "random", "outside"):
                    for wts in (False, True):
                        if cf == "outside" and (bs not in (None, 1) or wts):
                            continue
                        add(dict(op="Sense", img=img, nc=nc, batch_size=bs, coord=cf, npts=7, weights=wts))
        for lseg, nb in ((1, 2), (2, 4)):
            if len(img) != 2:
                continue  # time-segmented correction is documented for 2-D b0 maps only
            add(dict(op="Sense", img=img, nc=2, batch_size=None, coord="random", npts=7, weights=False,
                     tseg={"lseg": lseg, "n_bins": nb}))
    for iker, mker in (([5, 5], [3, 3]), ([4, 5], [3, 3]), ([3, 3], [3, 3])):
        for nc in (1, 2):
            for cf in (None, "random"):
                for wts in (False, True):
                    grd = [i - m + 1 for i, m in zip(iker, mker)]
                    add(dict(op="ConvSense", iker=iker, mker=mker, nc=nc, coord=cf, npts=6, weights=wts, grd=grd if cf else None))
                    add(dict(op="ConvImage", iker=iker, mker=mker, nc=nc, coord=cf, npts=6, weights=wts, grd=grd if cf else None))
    for img in ([2, 2], [3, 3], [2, 3], [2, 2, 2]):
        for nc in (1, 2):
            for nt in (5, 8):
                for b0 in (False, True):
                    add(dict(op="PtxSpatialExplicit", img=img, nc=nc, nt=nt, b0=b0))
    return S
