"""C03 — operator algebra agrees with matrix algebra and advertised shapes.

Alphabet: every well-typed expression tree (vf.programs) up to the node bound over
the typed leaf alphabet, every stacking axis in [-ndim, ndim) and None, different
block shapes, independent iaxis/oaxis, real/complex/NumPy scalars; and every
ordered pair of leaves x binary combinator whose operands do NOT fit.
Oracle: compositional dense reference (ref(A*B)=ref(A)@ref(B), block assembly by
explicit index tensors), exact output shape, reference ishape/oshape; ill-fitting
operands must be rejected at construction or first application.
"""
import numpy as np

from vf import dense, opcat, programs

PID = "C03"
LEVEL = "model_checking"
ENGINE = "E3"
TECHNIQUE = ("bounded-exhaustive enumeration of operator expression trees on the real code vs a compositional "
             "dense-matrix reference model; exhaustive ill-typed operand pairs must be rejected")
LEVEL_TEXT = ("Every well-typed tree up to the node bound is built with the real operators and compared, on the whole "
              "canonical basis, with the matrix expression of its parts assembled by a pure-NumPy reference; every "
              "shape-incompatible operand pair for every binary combinator is constructed and must raise.")
LEVEL_NOTE = ("Leaf matrices are obtained from the real leaves by basis probing (leaf semantics are the subject of "
              "C05/C07/C09...); bounded tree size and a fixed typed leaf alphabet on shapes around [2,3].")
RULE = ("one case = one expression tree (or one ill-typed candidate); non-trivial = tree has >= 1 internal node and a "
        "reference matrix different from every child's matrix")
ASSUMPTIONS = ["CPU/NumPy backend", "tolerance 1e-9 relative", "real-dtype inputs: an exception is tolerated, a silently wrong result is not"]
TOL = 1e-9
CHUNK = 24


def bounds(tier):
    return {"n-ary": "3- and 4-operand Add/Compose/Hstack/Vstack/Diag over 5 leaves (quick) / 3-operand over 11 leaves (thorough)", "tree nodes": "1 over 11 leaves (all axes), 2 over 5 leaves (all axes)" if tier == "quick"
            else "<= 2 over 11 leaves (all axes), 3 over 3 leaves",
            "unary chains": "all 8^3 chains of {Conj, H, Neg, N, c1*, c2*, *c1, *=c2} (complex c1, c2) over 3 leaves", "3-D operands": "7 leaves on [2,3,2] [2,3,4] [3,2,4] [2,2,2] [2,3,3] [3,3,2] (repeated lengths): every 1-node tree and every ill-typed pair",
            "ill-typed": "every ordered pair over 11 leaves + 6 shape-coincidence operands ([6], [2], [2,3,1], [1,2,3], [2,3,2]) x {Compose, Add, Sub, Hstack/Vstack axis in [-nd-1, nd], None, Diag iaxis/oaxis in [-nd, nd) and None} rejected by the reference shape calculus"}


def gen_cases(tier, seed):
    cases = []
    for t in programs.trees(programs.LEAVES, 1):
        cases.append(dict(kind="tree", spec=t))
    for t in programs.nary_trees(programs.SUB5 if tier == "quick" else programs.LEAVES, (3, 4) if tier == "quick" else (3,)):
        cases.append(dict(kind="tree", spec=t))
    if tier == "quick":
        for t in programs.trees(programs.SUB5, 2, all_axes=True, scalars=programs.SCALARS[:2]):
            cases.append(dict(kind="tree", spec=t))
    else:
        for t in programs.trees(programs.LEAVES, 2):
            cases.append(dict(kind="tree", spec=t))
        for t in programs.trees(programs.SUB3, 3, all_axes=False, scalars=programs.SCALARS[:1]):
            cases.append(dict(kind="tree", spec=t))
    # chains of three unary operations with complex scalars on one leaf ((a*A).H*b, (a*A).N, conj((A*a).H), ...): scalar
    # factors that end up next to each other inside a flattened composition
    c1, c2 = programs.SCALARS[0], programs.SCALARS[3]
    un = [lambda t: dict(op="Conj", kids=[t]), lambda t: dict(op="H", kids=[t]), lambda t: dict(op="Neg", kids=[t]),
          lambda t: dict(op="N", kids=[t]), lambda t: dict(op="LScale", c=c1, kids=[t]), lambda t: dict(op="LScale", c=c2, kids=[t]),
          lambda t: dict(op="RScale", c=c1, kids=[t]), lambda t: dict(op="IScale", c=c2, kids=[t])]
    for leaf in (programs.LEAVES[0], programs.LEAVES[3], programs.LEAVES[7]):
        for f1 in un:
            for f2 in un:
                for f3 in un:
                    cases.append(dict(kind="tree", spec=f3(f2(f1(leaf)))))
    # sums and differences in which a scaled identity is the first, the last or a middle term (the usual regulariser)
    I23 = dict(op="Identity", shape=[2, 3], ish=[2, 3], osh=[2, 3])
    for X in [l for l in programs.LEAVES if l["ish"] == [2, 3] and l["osh"] == [2, 3]]:
        for c in (programs.SCALARS[0], programs.SCALARS[1], 1, 0):
            cI = dict(op="LScale", c=c, kids=[I23])
            Ic = dict(op="RScale", c=c, kids=[I23]) if c in programs.SCALARS[:2] else cI
            for t in (dict(op="Add", kids=[cI, X]), dict(op="Add", kids=[X, cI]), dict(op="Sub", kids=[cI, X]), dict(op="Sub", kids=[X, Ic]),
                      dict(op="AddN", kids=[cI, X, X]), dict(op="AddN", kids=[X, cI, X]), dict(op="AddN", kids=[I23, cI, X]),
                      dict(op="IAdd", kids=[cI, X]), dict(op="Add", kids=[dict(op="Add", kids=[cI, X]), Ic])):
                cases.append(dict(kind="tree", spec=t))
    for t in programs.trees(programs.LEAVES3, 1):
        cases.append(dict(kind="tree", spec=t))
    for t in programs.ill_typed_pairs(programs.LEAVES3):
        cases.append(dict(kind="ill", spec=t))
    for t in programs.ill_typed_pairs(programs.LEAVES + programs.ILL_EXTRA):
        cases.append(dict(kind="ill", spec=t))
    return cases


def classify(spec):
    from checks import c01
    return c01.classify(spec)


def exc_key(case, root):
    spec = case["spec"]
    return dict(site=spec["op"], when=classify(spec) + ", raised " + type(root).__name__)


_leaf_cache = {}


def run_case(case, seed):
    full = case["spec"]
    spec = programs.strip(full)
    site = spec["op"]
    when = classify(spec)
    viol = []

    def V(oracle, detail):
        viol.append(dict(oracle=oracle, key=dict(site=site, when=when), detail=detail,
                         python="vf.opcat.build(%r)" % (spec,)))

    if case["kind"] == "ill":
        stage = "construction"
        try:
            A = opcat.build(spec, seed)
            stage = "application"
            x = np.zeros(A.ishape, dtype=np.complex128)
            y = A(x)
            AH = A.H
            AH(np.zeros(AH.ishape, dtype=np.complex128))
        except Exception as ex:
            if stage == "construction":
                return dict(states=1, transitions=1, nontrivial=True, outcome="rejected-at-construction", viol=[])
            # "rejected with an error rather than combined": an operator that exists and only fails when used was combined
            V("accepted-ill-typed", "operands do not fit (%s) but the operator was built (%s->%s); it only failed when applied: %s: %s" % (
                opcat.pretty(spec)[:200], list(A.ishape), list(A.oshape), type(ex).__name__, str(ex)[:80]))
            return dict(states=1, transitions=2, nontrivial=True, outcome="violation:accepted-ill-typed", viol=viol)
        V("accepted-ill-typed", "operands do not fit (%s) but the operator was built and applied; result shape %s" % (
            opcat.pretty(spec)[:200], list(np.asarray(y).shape)))
        return dict(states=1, transitions=2, nontrivial=True, outcome="violation:accepted-ill-typed", viol=viol)

    def leafM(lspec):
        k = repr(sorted(programs.strip(lspec).items(), key=str)) + str(seed)
        if k not in _leaf_cache:
            _leaf_cache[k] = dense.dense_linop(opcat.build(programs.strip(lspec), seed))
        return _leaf_cache[k]

    rish, rosh = programs.ref_shapes(full)
    R = programs.ref_matrix(full, leafM)
    opcat.TRACK = []
    try:
        A = opcat.build(spec, seed)
    finally:
        nodes, opcat.TRACK = opcat.TRACK, None
    trans = 0
    if [int(v) for v in A.ishape] != rish or [int(v) for v in A.oshape] != rosh:
        V("advertised-shapes", "operator advertises %s->%s, reference %s->%s" % (
            list(A.ishape), list(A.oshape), rish, rosh))
        return dict(states=1, transitions=1, nontrivial=True, outcome="violation:advertised-shapes", viol=viol)
    try:
        M = dense.dense_linop(A)
        trans += M.shape[1]
        e = dense.relerr(M, R)
        if not e <= TOL:
            V("matrix-algebra", "max|M(tree) - ref(tree)| / max|ref| = %.3g" % e)
    except dense.ShapeError as e:
        V("output-shape", str(e))
        M = None
    # real-dtype input: imaginary parts must not be dropped silently
    outcome_real = "n/a"
    if M is not None and not viol:
        xr = np.real(dense.dense_vec(M.shape[1], 2)).astype(np.float64)
        try:
            yr = np.asarray(A(xr.reshape(rish)))
            trans += 1
            ref = R @ xr
            err = np.abs(yr.ravel() - ref).max() / max(1.0, np.abs(ref).max())
            outcome_real = "real-ok"
            if list(yr.shape) != rosh:
                V("output-shape-real-input", "shape %s for a float64 input, advertised %s" % (list(yr.shape), rosh))
            elif not err <= 2e-5:
                V("real-input-imag-dropped", "float64 input: result differs from the complex-dtype result by %.3g "
                  "(output dtype %s)" % (err, yr.dtype))
        except Exception:
            outcome_real = "real-raised"
    # operators are values: the operands a new operator was made from are still the operators they were
    # (differential oracle: the same sub-expression built on its own, which has its own case in this enumeration)
    if M is not None and not viol:
        for nspec, nobj in nodes[:-1]:
            k = "node:" + repr(nspec) + str(seed)
            if k not in _leaf_cache:
                _leaf_cache[k] = dense.dense_linop(opcat.build(nspec, seed))
            try:
                Mn = dense.dense_linop(nobj)
                en = dense.relerr(Mn, _leaf_cache[k]) if Mn.shape == _leaf_cache[k].shape else float("inf")
            except Exception as ex:
                en = float("inf")
            trans += _leaf_cache[k].shape[1]
            if not en <= TOL:
                V("operand-changed", "after building and applying the expression, its operand %s differs from the same "
                  "operator built on its own by %.3g" % (opcat.pretty(nspec)[:120], en))
                break
    kidsM = [programs.ref_matrix(k, leafM) for k in full.get("kids", [])]
    nontrivial = all(km.shape != R.shape or not np.allclose(km, R) for km in kidsM)
    return dict(states=1, transitions=trans, nontrivial=bool(nontrivial),
                outcome=("ok/" + outcome_real) if not viol else "violation:" + viol[0]["oracle"], viol=viol)
