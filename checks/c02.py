"""C02 — operators are C-linear, deterministic and never mutate inputs.

Part A (E2 histories on operators).  For every operator of a class-balanced
sub-alphabet of Appendix A and every tree with <= 1 (quick) / 2 (thorough)
internal nodes, every word over the call alphabet
  a: A(x_a complex128)   b: A(x_b complex64)   r: A(x_r float64)
  h: touch A.H, apply to y_a   n: touch A.N, apply to x_a   H: apply A.H.H to x_a
up to a depth (stateless, no pruning), continued by de-duplicating BFS, each
word on a FRESH object.  Invariants in every state: (i) every input array is
byte-identical to its pristine twin; (ii) every array reachable from the
operator keeps its digest; (iii) every output equals M x with M extracted on
the first visit of a separate fresh object (determinism across repetition and
cache state); (iv) linearity probes incl. i*x and real-dtype inputs.
Part B: every Prox class and public array function called on small arguments
(contiguous, Fortran-ordered and strided), arguments byte-compared afterwards,
second call must reproduce the first.
"""
import numpy as np

from vf import dense, history, opcat, programs, snapshot

PID = "C02"
LEVEL = "model_checking"
ENGINE = "E2"
TECHNIQUE = ("exhaustive enumeration of call histories over nine events (apply with three input dtypes, .H, .N, .H.H, a deepcopy "
             "of the operator, a twin operator built from other arrays, the operator applied to its own captured array) on "
             "fresh real operator objects, stateless to a depth then de-duplicating BFS on array-digest states; byte snapshots "
             "of inputs, captured and built-from arrays and of earlier results; replay determinism against the first-visit "
             "dense matrix; for functions and prox operators: enumerated dtype x layout variants (C, Fortran, strided, "
             "negative-stride, read-only), ordered pairs of calls in fresh interpreters, NumPy process state before/after")
LEVEL_TEXT = ("Every call sequence up to the depth bound is executed on a fresh real operator; after every call the inputs "
              "and every array reachable from the operator are byte-compared with pristine twins and the output with the "
              "first-visit matrix, so mutation, hidden state and cache-order effects are decided for all histories within "
              "the bound; Prox objects and public array functions are checked for argument mutation and repeatability on "
              "an enumerated argument family.")
LEVEL_NOTE = ("History depth <= 3/4 stateless (+BFS to 6), operator sub-alphabet thinned per class (see bounds), inputs are "
              "fixed vectors (linearity is separately probed on a spanning family); GPU/MPI paths unreachable.")
RULE = ("one case = one operator (all its histories) or one function/prox call family; states = distinct "
        "(cache flags, array digests) reached; non-trivial = operator is not the identity map / function returns "
        "something different from its first argument")
ASSUMPTIONS = ["CPU/NumPy backend", "complex64 / real-dtype paths compared at 2e-5 (library runs them in single precision)",
               "an exception on a real-dtype input is tolerated (nothing silently lost)"]
CHUNK = 4
ALPHABET = ("a", "b", "r", "h", "n", "H", "c", "t", "s")   # c: apply a deepcopy; t: use a twin operator (same class, other arrays); s: apply A to an array it was built from


GLOBAL_STATE_ORACLE = True     # the runner also compares NumPy's error state, print options and the warnings filters before/after each case


def bounds(tier):
    return {"call alphabet": list(ALPHABET),
            "stateless depth": 2 if tier == "quick" else 3,
            "bfs depth": 5 if tier == "quick" else 6,
            "operators": "per class: first 12 + 28 evenly spaced configurations (quick) / first 30 + 120 (thorough) of leaf_specs; trees with 1 (quick) / <=2 over SUB5 (thorough) internal nodes",
            "functions": "see FUNCS / PROXES in checks/c02.py; each with complex128, complex64, float64 and F-ordered/strided arguments"}


def _thin(specs, first, spaced):
    by = {}
    for s in specs:
        by.setdefault(s["op"], []).append(s)
    out = []
    for op, lst in by.items():
        pick = list(range(min(first, len(lst))))
        if len(lst) > first and spaced:
            step = max(1, (len(lst) - first) // spaced)
            pick += list(range(first, len(lst), step))[:spaced]
        out.extend(lst[i] for i in pick)
    return out


def gen_cases(tier, seed):
    T = tier == "thorough"
    ds, db = (3, 6) if T else (2, 5)
    cases = [dict(kind="op", spec=s, ds=ds, db=db) for s in _thin(opcat.leaf_specs(tier), 30 if T else 12, 120 if T else 28)]
    for t in programs.trees(programs.LEAVES, 1):
        cases.append(dict(kind="op", spec=t, ds=ds, db=db))
    for t in programs.nary_trees(programs.SUB5, (3,), all_axes=False):
        cases.append(dict(kind="op", spec=t, ds=ds, db=db))
    if T:
        for t in programs.trees(programs.SUB5, 2, all_axes=False, scalars=programs.SCALARS[:2]):
            cases.append(dict(kind="op", spec=t, shallow=True))
    for name in sorted(FUNCS):
        for v in range(FUNCS[name][0] + (2 if FUNCS[name][0] == 5 else 0)):   # 5: negative strides, 6: read-only arguments
            cases.append(dict(kind="func", name=name, variant=v))
    for name in sorted(PROXES):
        for v in range(7):
            cases.append(dict(kind="prox", name=name, variant=v))
    # process histories: ordered pairs of differently-typed calls, each pair in a FRESH interpreter
    hist_names = [n for n in sorted(FUNCS) if n.startswith("thresh.")] + ["prox.L1Reg", "prox.LInfProj", "prox.L1Proj"]
    if T:
        hist_names = sorted(FUNCS) + ["prox." + n for n in sorted(PROXES)]
    for name in hist_names:
        nv = 3 if name.startswith("prox.") else min(3, FUNCS[name][0])
        for a in range(nv):
            for b in range(nv):
                if a != b:
                    cases.append(dict(kind="prochist", name=name, first=a, then=b))
    for fam in sorted(FAMILIES):
        cases.append(dict(kind="confhist", family=fam))
    # subprocess cases first: they are the slowest, so they must not form the tail of the run
    cases.sort(key=lambda c: 0 if c["kind"] in ("prochist", "confhist") else 1)
    return cases


def warmup():
    from checks import c01
    c01.warmup()


def exc_key(case, root):
    if case["kind"] == "op":
        return dict(site=case["spec"]["op"], when="raised " + type(root).__name__)
    return dict(site=case.get("name", case.get("family", "?")), when="raised " + type(root).__name__)


# ------------------------------------------------------------------ part A
def _close(y, ref, tol):
    y = np.asarray(y).ravel()
    if y.shape != ref.shape:
        return False, float("inf")
    if ref.size == 0:
        return True, 0.0
    err = float(np.abs(y - ref).max())
    scale = max(1.0, float(np.abs(ref).max()))
    return (np.isfinite(err) and err <= tol * scale), err / scale


def run_op(case, seed):
    spec = programs.strip(case["spec"])
    site = spec["op"]
    viol = []
    seen_v = set()

    def V(oracle, when, detail):
        k = (oracle, when)
        if k in seen_v:
            return
        seen_v.add(k)
        viol.append(dict(oracle=oracle, key=dict(site=site, when=when), detail=detail,
                         python="vf.opcat.build(%r)" % (spec,)))

    R = opcat.build(spec, seed)
    ish, osh = list(R.ishape), list(R.oshape)
    n, m = dense.prod(ish), dense.prod(osh)
    M = dense.dense_linop(R)
    MH = dense.dense_linop(opcat.build(spec, seed).H)
    MN = dense.dense_linop(opcat.build(spec, seed).N)
    bad = dense.linearity_defects(lambda x: opcat.build(spec, seed)(x), M, ish, 1e-9)
    if bad:
        V("linearity", "apply", "A is not C-linear on probe %s (err %.3g)" % bad[0])
    xa = (dense.dense_vec(n, 1) * (1 + 0.5j)).reshape(ish)
    xb = dense.dense_vec(n, 2).astype(np.complex64).reshape(ish)
    xr = np.real(dense.dense_vec(n, 3)).astype(np.float64).reshape(ish)
    ya = (dense.dense_vec(m, 4) * (0.5 - 1j)).reshape(osh)
    pristine = dict(xa=xa.copy(), xb=xb.copy(), xr=xr.copy(), ya=ya.copy())
    live = dict(xa=xa, xb=xb, xr=xr, ya=ya)
    refs = dict(a=M @ xa.ravel(), b=M @ xb.ravel().astype(complex), r=M @ xr.ravel(),
                h=MH @ ya.ravel(), n=MN @ xa.ravel(), H=M @ xa.ravel())
    real_outcome = set()

    def built_from_ok(created, tag):
        for arr, cp in created:
            if arr.tobytes() != cp.tobytes():
                V("built-from-array-mutated", tag, "%s: an array the operator was built from was modified" % tag)
                return

    _twin = {}

    def twin_ref():
        if "r" not in _twin:
            _twin["r"] = dense.dense_linop(opcat.build(spec, seed + 1)) @ xa.ravel()
        return _twin["r"]

    def run_history(word):
        del opcat.CREATED[:]
        A = opcat.build(spec, seed)
        created = list(opcat.CREATED)
        built_from_ok(created, "construction")
        snap = snapshot.walk(A)
        v_before = len(viol)
        kept = []   # (event, live output object, copy at return time): results of earlier calls must stay valid
        for step, ev in enumerate(word):
            when = "event %s" % ev
            out = None
            try:
                if ev == "a":
                    out = A(live["xa"])
                    ok, e = _close(out, refs["a"], 1e-9)
                elif ev == "b":
                    out = A(live["xb"])
                    ok, e = _close(out, refs["b"], 2e-5)
                elif ev == "r":
                    try:
                        out = A(live["xr"])
                        ok, e = _close(out, refs["r"], 2e-5)
                        real_outcome.add("returned")
                    except Exception:
                        ok, e = True, 0.0
                        real_outcome.add("raised")
                elif ev == "h":
                    out = A.H(live["ya"])
                    ok, e = _close(out, refs["h"], 1e-9)
                elif ev == "n":
                    out = A.N(live["xa"])
                    ok, e = _close(out, refs["n"], 1e-9)
                elif ev == "t":
                    # a second operator of the same class built from OTHER arrays: two objects must not influence each
                    # other (class-level attributes, module-level scratch space)
                    Tw = opcat.build(spec, seed + 1)
                    outT = Tw(live["xa"])
                    okT, eT = _close(outT, twin_ref(), 1e-9)
                    if not okT:
                        V("determinism", when, "history %s: a twin operator (same spec, other arrays) gives a result %.3g away from "
                          "its own first-visit result" % ("".join(word[:step + 1]), eT))
                    del opcat.CREATED[len(created):]
                    ok, e = True, 0.0
                elif ev == "s":
                    # aliasing: the operator applied to (a view of) an array it was built from
                    ok, e = True, 0.0
                    for arr, cp in created:
                        if list(arr.shape) == ish and np.issubdtype(arr.dtype, np.inexact):   # (a narrow-integer multiplier fed back as INPUT would overflow in NumPy's own integer arithmetic)
                            out = A(arr)
                            ok, e = _close(out, M @ cp.ravel().astype(complex), 1e-9)
                            break
                elif ev == "c":
                    import copy
                    try:
                        Bc = copy.deepcopy(A)
                    except Exception:
                        Bc = None       # an operator that cannot be copied says so loudly
                    if Bc is None:
                        ok, e = True, 0.0
                    else:
                        out = Bc(live["xa"])
                        ok, e = _close(out, refs["a"], 1e-9)
                else:
                    out = A.H.H(live["xa"])
                    ok, e = _close(out, refs["H"], 1e-9)
                for pev, pobj, pcopy in kept:
                    if pobj.shape != pcopy.shape or pobj.tobytes() != pcopy.tobytes():
                        V("earlier-result-overwritten", when, "history %s: the array returned by an earlier call (%s) was changed by this call "
                          "(shared scratch buffer?)" % ("".join(word[:step + 1]), pev))
                        break
                if isinstance(out, np.ndarray):
                    kept.append((ev, out, out.copy()))
            except Exception as ex:
                ok, e = False, float("nan")
                V("history-exception", when, "history %s: %s: %s" % ("".join(word[:step + 1]), type(ex).__name__, str(ex)[:200]))
            if not ok:
                V("determinism" if ev != "r" else "real-input-imag-dropped", when,
                  "history %s: output differs from the first-visit result by %.3g (relative)" % ("".join(word[:step + 1]), e))
            for nm, arr in live.items():
                if arr.tobytes() != pristine[nm].tobytes():
                    V("input-mutated", when, "history %s: input %s was modified" % ("".join(word[:step + 1]), nm))
                    live[nm][...] = pristine[nm]
            built_from_ok(created, when)
            snap2 = snapshot.walk(A)
            for p, d in snap.items():
                if p in snap2 and snap2[p] != d:
                    V("captured-array-mutated", when, "history %s: array at %s changed" % ("".join(word[:step + 1]), p))
            snap = snap2
        flags = (A.adj is not None, A.normal is not None,
                 A.adj is not None and getattr(A.adj, "adj", None) is not None)
        return (flags, tuple(sorted((p, d) for p, d in snap.items() if ".adj" not in p and ".normal" not in p))), viol[v_before:]

    ds = case.get("ds", 2)
    res = history.explore(ALPHABET, run_history, lambda st: st, 1 if case.get("shallow") else ds,
                          2 if case.get("shallow") else case.get("db", 5))
    trivial = M.shape[0] == M.shape[1] and np.allclose(M, np.eye(M.shape[0]))
    return dict(states=res["states"], transitions=res["transitions"], traces=res["histories"],
                nontrivial=not trivial,
                outcome=("ok" if not viol else "violation:" + viol[0]["oracle"]) + "/real-" + "+".join(sorted(real_outcome)),
                viol=viol)


# ------------------------------------------------------------------ part B
def _arr(shape, dt, a3=0, a4=None):
    seed, layout = 0, "C"
    for a in (a3, a4):
        if isinstance(a, str):
            layout = a
        elif a is not None:
            seed = a
    n = dense.prod(shape)
    v = dense.dense_vec(n, seed)
    if not np.issubdtype(dt, np.complexfloating):
        v = np.real(v)
    a = v.astype(dt).reshape(shape)
    if layout == "F":
        a = np.asfortranarray(a)
    elif layout == "S":  # strided view into a larger buffer
        big = np.zeros([2 * s for s in shape], dtype=dt)
        sl = tuple(slice(None, None, 2) for _ in shape)
        big[sl] = a
        a = big[sl]
    elif layout == "R":  # negative strides along every axis
        rev = tuple(slice(None, None, -1) for _ in shape)
        a = np.ascontiguousarray(a[rev])[rev]
    elif layout == "O":  # read-only
        a.setflags(write=False)
    return a


_DT = [np.complex128, np.complex64, np.float64]
_LAY = ["C", "C", "C", "F", "S", "R", "O"]
_LAYNAME = {"F": "Fortran-ordered", "S": "strided", "R": "negative-stride", "O": "read-only"}


def _v(variant):
    """variant -> (dtype, layout)"""
    return _DT[variant % 3] if variant < 3 else np.complex128, _LAY[variant]


def _mk_funcs():
    import sigpy as sp
    import sigpy.mri as mr
    F = {}

    def reg(name, nvar, fn):
        F[name] = (nvar, fn)

    # each fn(variant) -> (callable, args(list), mutable_arg_indexes)
    reg("util.vec", 5, lambda v: (sp.vec, [[_arr([2, 3], *_v(v)), _arr([4], _v(v)[0], 1)]], ()))
    reg("util.split", 5, lambda v: (sp.split, [_arr([10], *_v(v)), [[2, 3], [4]]], ()))
    reg("util.rss", 5, lambda v: (sp.rss, [_arr([3, 4], *_v(v))], ()))
    reg("util.resize", 5, lambda v: (sp.resize, [_arr([3, 4], *_v(v)), [5, 3]], ()))
    reg("util.resize.same", 5, lambda v: (sp.resize, [_arr([3, 4], *_v(v)), [3, 4]], ()))
    reg("util.flip", 5, lambda v: (sp.flip, [_arr([3, 4], *_v(v)), (0,)], ()))
    reg("util.circshift", 5, lambda v: (sp.circshift, [_arr([3, 4], *_v(v)), [1, -1]], ()))
    reg("util.downsample", 5, lambda v: (sp.downsample, [_arr([4, 5], *_v(v)), [2, 2]], ()))
    reg("util.upsample", 5, lambda v: (sp.upsample, [_arr([2, 3], *_v(v)), [4, 5], [2, 2]], ()))
    reg("util.leja", 2, lambda v: (sp.util.leja, [_arr([5], _DT[v % 2])], ()))
    reg("util.monte_carlo_sure", 2, lambda v: (
        lambda y: sp.util.monte_carlo_sure(lambda t: 0.5 * t, y, 0.1), [_arr([6], _DT[v % 2] if v else np.complex128)], ()))
    reg("util.axpy", 5, lambda v: (sp.util.axpy, [_arr([3, 4], *_v(v)), 2.0, _arr([3, 4], _v(v)[0], 1)], (0,)))
    reg("util.axpy.arr", 5, lambda v: (sp.util.axpy, [_arr([3, 4], *_v(v)), np.abs(_arr([3, 4], np.float64, 2)), _arr([3, 4], _v(v)[0], 1)], (0,)))
    reg("util.xpay", 5, lambda v: (sp.util.xpay, [_arr([3, 4], *_v(v)), 2.0, _arr([3, 4], _v(v)[0], 1)], (0,)))
    reg("backend.copyto", 5, lambda v: (sp.copyto, [_arr([3, 4], *_v(v)), _arr([3, 4], _v(v)[0], 1)], (0,)))
    reg("fourier.fft", 5, lambda v: (sp.fft, [_arr([3, 4], *_v(v))], ()))
    reg("fourier.fft.axes", 5, lambda v: (lambda x: sp.fft(x, oshape=[3, 6], axes=(-1,), center=True), [_arr([3, 4], *_v(v))], ()))
    reg("fourier.fft.nocenter", 5, lambda v: (lambda x: sp.fft(x, center=False, norm=None), [_arr([3, 4], *_v(v))], ()))
    reg("fourier.ifft", 5, lambda v: (sp.ifft, [_arr([3, 4], *_v(v))], ()))
    reg("fourier.ifft.nocenter", 5, lambda v: (lambda x: sp.ifft(x, center=False), [_arr([3, 4], *_v(v))], ()))
    co1 = np.array([[-1.2], [0.3], [1.7], [0.0]])
    co2 = np.array([[-1.2, 0.4], [0.3, -1.5], [1.0, 1.0]])
    reg("fourier.nufft", 5, lambda v: (sp.nufft, [_arr([3, 4], *_v(v)), co2.copy()], ()))
    reg("fourier.nufft.1d", 5, lambda v: (sp.nufft, [_arr([2, 5], *_v(v)), co1.copy()], ()))
    reg("fourier.nufft.oversamp1", 5, lambda v: (lambda x, c: sp.nufft(x, c, oversamp=1.0, width=3), [_arr([3, 4], *_v(v)), co2.copy()], ()))
    reg("fourier.nufft_adjoint.oversamp1", 5, lambda v: (lambda y, c: sp.nufft_adjoint(y, c, [3, 4], oversamp=1.0, width=3), [_arr([3], *_v(v)), co2.copy()], ()))
    reg("fourier.nufft_adjoint", 5, lambda v: (sp.nufft_adjoint, [_arr([3], *_v(v)), co2.copy(), [3, 4]], ()))
    reg("fourier.nufft_adjoint.batch", 5, lambda v: (sp.nufft_adjoint, [_arr([2, 4], *_v(v)), co1.copy(), [2, 5]], ()))
    reg("fourier.toeplitz_psf", 1, lambda v: (sp.fourier.toeplitz_psf, [co2.copy(), [3, 4]], ()))
    reg("interp.interpolate", 5, lambda v: (sp.interpolate, [_arr([3, 4], *_v(v)), co2.copy() + 1.5], ()))
    reg("interp.interpolate.kb", 5, lambda v: (
        lambda x, c: sp.interpolate(x, c, kernel="kaiser_bessel", width=3, param=4.0), [_arr([2, 5], *_v(v)), co1.copy() + 2], ()))
    reg("interp.gridding", 5, lambda v: (sp.gridding, [_arr([3], *_v(v)), co2.copy() + 1.5, [3, 4]], ()))
    reg("interp.gridding.batch", 5, lambda v: (sp.gridding, [_arr([2, 4], *_v(v)), co1.copy() + 2, [2, 5]], ()))
    reg("conv.convolve", 5, lambda v: (sp.convolve, [_arr([4, 5], *_v(v)), _arr([2, 3], _v(v)[0], 1)], ()))
    reg("conv.convolve.valid.mc", 5, lambda v: (
        lambda d, f: sp.convolve(d, f, mode="valid", strides=[2], multi_channel=True),
        [_arr([2, 2, 6], *_v(v)), _arr([3, 2, 2], _v(v)[0], 1)], ()))
    reg("conv.convolve_data_adjoint", 5, lambda v: (sp.convolve_data_adjoint, [_arr([5, 7], *_v(v)), _arr([2, 3], _v(v)[0], 1), [4, 5]], ()))
    reg("conv.convolve_filter_adjoint", 5, lambda v: (sp.convolve_filter_adjoint, [_arr([5, 7], *_v(v)), _arr([4, 5], _v(v)[0], 1), [2, 3]], ()))
    reg("block.array_to_blocks", 5, lambda v: (sp.array_to_blocks, [_arr([2, 5], *_v(v)), [2], [1]], ()))
    reg("block.array_to_blocks.2d", 5, lambda v: (sp.array_to_blocks, [_arr([4, 5], *_v(v)), [2, 2], [2, 1]], ()))
    reg("block.blocks_to_array", 5, lambda v: (sp.blocks_to_array, [_arr([2, 4, 2], *_v(v)), [2, 5], [2], [1]], ()))
    reg("block.blocks_to_array.2d", 5, lambda v: (sp.blocks_to_array, [_arr([2, 4, 2, 2], *_v(v)), [4, 5], [2, 2], [2, 1]], ()))
    reg("thresh.soft_thresh", 5, lambda v: (sp.soft_thresh, [0.4, _arr([3, 4], *_v(v))], ()))
    reg("thresh.soft_thresh.arr", 5, lambda v: (sp.soft_thresh, [np.abs(_arr([3, 4], np.float64, 1)), _arr([3, 4], *_v(v))], ()))
    reg("thresh.hard_thresh", 5, lambda v: (sp.hard_thresh, [0.4, _arr([3, 4], *_v(v))], ()))
    reg("thresh.l1_proj", 5, lambda v: (sp.l1_proj, [1.0, _arr([3, 4], *_v(v))], ()))
    reg("thresh.l1_proj.feasible", 5, lambda v: (sp.l1_proj, [100.0, _arr([3, 4], *_v(v))], ()))
    reg("thresh.l2_proj", 5, lambda v: (sp.l2_proj, [1.0, _arr([3, 4], *_v(v))], ()))
    reg("thresh.l2_proj.axes", 5, lambda v: (sp.l2_proj, [1.0, _arr([3, 4], *_v(v)), (-1,)], ()))
    reg("thresh.linf_proj", 5, lambda v: (sp.linf_proj, [0.5, _arr([3, 4], *_v(v))], ()))
    reg("thresh.linf_proj.bias", 5, lambda v: (lambda e, x, b: sp.linf_proj(e, x, bias=b), [0.5, _arr([3, 4], *_v(v)), _arr([3, 4], _v(v)[0], 1)], ()))
    reg("thresh.psd_proj", 5, lambda v: (sp.psd_proj, [_arr([3, 3], *_v(v))], ()))
    reg("wavelet.fwt", 5, lambda v: (sp.fwt, [_arr([5, 6], *_v(v))], ()))
    reg("wavelet.fwt.haar", 5, lambda v: (lambda x: sp.fwt(x, wave_name="haar", axes=(-1,), level=1), [_arr([4, 6], *_v(v))], ()))

    def _iwt(x):
        _, sl = sp.wavelet.get_wavelet_shape([5, 6])
        return sp.iwt(x, [5, 6], sl)
    reg("wavelet.iwt", 5, lambda v: (_iwt, [_arr(list(sp.wavelet.get_wavelet_shape([5, 6])[0]), *_v(v))], ()))
    reg("mri.util.get_cov", 5, lambda v: (mr.util.get_cov, [_arr([3, 4, 2], *_v(v))], ()))

    def _whiten(k, c):
        return mr.util.whiten(k, c)
    cov = np.array([[2.0, 0.5j, 0], [-0.5j, 1.5, 0.2], [0, 0.2, 1.0]])
    reg("mri.util.whiten", 5, lambda v: (_whiten, [_arr([3, 4, 2], *_v(v)), cov.copy()], ()))
    # degenerate argument shapes: a single coil, one sample per coil, plain 2-D [coils, samples] data (in every layout: an
    # array that is both C- and Fortran-contiguous, or Fortran-ordered, is what in-place LAPACK/BLAS wrappers may overwrite)
    reg("mri.util.whiten.1coil", 5, lambda v: (_whiten, [_arr([1, 6], *_v(v)), np.array([[2.0 + 0j]])], ()))
    reg("mri.util.whiten.1sample", 5, lambda v: (_whiten, [_arr([3, 1], *_v(v)), cov.copy()], ()))
    reg("mri.util.whiten.2d", 5, lambda v: (_whiten, [_arr([3, 5], *_v(v)), cov.copy()], ()))
    reg("mri.util.get_cov.1coil", 5, lambda v: (mr.util.get_cov, [_arr([1, 6], *_v(v))], ()))
    reg("util.rss.1coil", 5, lambda v: (lambda x: sp.rss(x, axes=(0,)), [_arr([1, 5], *_v(v))], ()))
    reg("mri.util.tseg_off_res_b_ct", 1, lambda v: (mr.util.tseg_off_res_b_ct, [_arr([4, 4], np.float64) * 10, 4, 2, 1e-3, 8e-3], ()))

    def _apply_tseg(x, c, fwd):
        b, ct = mr.util.tseg_off_res_b_ct(_arr([4, 4], np.float64) * 10, 4, 2, 1e-3, 8e-3)
        return mr.util.apply_tseg(x, c, b, ct, fwd=fwd)
    co8 = np.stack([np.linspace(-1.5, 1.5, 8), np.linspace(1.0, -1.2, 8)], axis=-1)
    reg("mri.util.apply_tseg", 2, lambda v: (_apply_tseg, [_arr([4, 4], np.complex128), co8.copy(), bool(v)], ()))
    return F


def _mk_proxes():
    import sigpy as sp
    P = {}
    sh = [2, 3]
    P["NoOp"] = lambda: sp.prox.NoOp(sh)
    P["L1Reg"] = lambda: sp.prox.L1Reg(sh, 0.5)
    P["L2Reg"] = lambda: sp.prox.L2Reg(sh, 0.5)
    P["L2Reg.bias"] = lambda: sp.prox.L2Reg(sh, 0.5, y=_arr(sh, np.complex128, 5))
    P["L2Reg.proxh"] = lambda: sp.prox.L2Reg(sh, 0.5, y=_arr(sh, np.complex128, 5), proxh=sp.prox.L1Reg(sh, 0.3))
    P["L2Proj"] = lambda: sp.prox.L2Proj(sh, 1.0)
    P["L2Proj.bias"] = lambda: sp.prox.L2Proj(sh, 1.0, y=_arr(sh, np.complex128, 5), axes=(-1,))
    P["LInfProj"] = lambda: sp.prox.LInfProj(sh, 0.5)
    P["LInfProj.bias"] = lambda: sp.prox.LInfProj(sh, 0.5, bias=_arr(sh, np.complex128, 5))
    P["L1Proj"] = lambda: sp.prox.L1Proj(sh, 1.0)
    P["L1Proj.feasible"] = lambda: sp.prox.L1Proj(sh, 100.0)
    P["PsdProj"] = lambda: sp.prox.PsdProj([3, 3])
    P["BoxConstraint"] = lambda: sp.prox.BoxConstraint(sh, -0.5, 0.5)
    P["BoxConstraint.arr"] = lambda: sp.prox.BoxConstraint(sh, -np.abs(_arr(sh, np.float64, 6)), np.abs(_arr(sh, np.float64, 7)))
    P["Conj(L1Reg)"] = lambda: sp.prox.Conj(sp.prox.L1Reg(sh, 0.5))
    P["Conj(L2Reg.bias)"] = lambda: sp.prox.Conj(sp.prox.L2Reg(sh, 0.5, y=_arr(sh, np.complex128, 5)))
    P["Stack"] = lambda: sp.prox.Stack([sp.prox.L1Reg(sh, 0.5), sp.prox.L2Reg([4], 0.5, y=_arr([4], np.complex128, 5))])
    P["UnitaryTransform"] = lambda: sp.prox.UnitaryTransform(sp.prox.L1Reg(sh, 0.5), sp.linop.FFT(sh))
    return P


def _mk_families():
    """Configuration families for the process-history check: name -> list of zero-argument callables.  Every ordered
    pair (a, b) is executed back to back in one process and b's result is compared with what b returns as the first
    and only call of a fresh interpreter (module-level caches keyed too coarsely, memoised designs, lazily built state)."""
    import sigpy as sp
    import sigpy.mri as mr
    F = {}
    x5 = _arr([5], np.complex128, 3)
    co = np.array([[-1.7], [0.3], [1.2], [2.4]])
    F["nufft.oversamp"] = [(lambda o=o: sp.nufft(x5.copy(), co.copy(), oversamp=o, width=4)) for o in (1.25, 1.375, 1.4, 2.0)]
    y4 = _arr([4], np.complex128, 4)
    F["nufft_adjoint.oversamp"] = [(lambda o=o: sp.nufft_adjoint(y4.copy(), co.copy(), [5], oversamp=o, width=4)) for o in (1.25, 1.375, 1.4, 2.0)]
    x2 = _arr([2, 3], np.complex128, 5)
    co2 = np.array([[-0.7, 0.4], [0.3, -1.2], [0.9, 1.1]])
    F["nufft.width"] = [(lambda w=w: sp.nufft(x2.copy(), co2.copy(), oversamp=1.5, width=w)) for w in (3, 4, 5)]
    x44 = _arr([4, 4], np.complex128, 6)
    F["fwt.axes-order"] = [(lambda a=a: sp.fwt(x44.copy(), wave_name="db2", axes=a, level=1)) for a in (None, (0, 1), (1, 0), (-1, -2), (1,))]

    def wav_adj(a):
        W = sp.linop.Wavelet([4, 4], axes=a, wave_name="db2", level=1)
        y = _arr(list(W.oshape), np.complex128, 7)
        return W.H(y)
    F["Wavelet.H.axes-order"] = [(lambda a=a: wav_adj(a)) for a in (None, (0, 1), (1, 0), (-1, -2), (1,))]

    def wav_lvl(shape, a):
        W = sp.linop.Wavelet(shape, axes=a, wave_name="haar")
        y = _arr(list(W.oshape), np.complex128, 8)
        return [np.array(W.oshape), W.H(y)]
    F["Wavelet.default-level"] = [(lambda sh=sh, a=a: wav_lvl(sh, a)) for sh, a in (([2, 8], (1,)), ([8, 8], (1,)), ([2, 8], None), ([8, 2], (0,)))]
    F["interpolate.width"] = [(lambda w=w, k=k, p=p: sp.interpolate(x2.copy(), co2.copy() + 1.0, kernel=k, width=w, param=p))
                              for (w, k, p) in ((2, "spline", 1), (3, "spline", 1), (3, "kaiser_bessel", 4.0), ((2, 3), "spline", 2))]
    from sigpy.mri.rf import trajgrad as tg

    def spokes(k):
        return tg.spokes_grad(np.array(k, dtype=float), 4, 5.0, 4.0, 15000.0, 4e-6)
    F["trajgrad.designs"] = [lambda: tg.trap_grad(1.0 / 4257, 4.0, 15000.0, 4e-6)[0],
                             lambda: spokes([[0, 0], [1, 1], [0, 0]]),
                             lambda: spokes([[1, 1], [0, 0]]),
                             lambda: tg.trap_grad(1.0 / 4257, 4.0, 15000.0, 4e-6)[0],
                             lambda: tg.min_trap_grad(1e-4, 4.0, 15000.0, 4e-6)[0]]
    F["resize.shapes"] = [(lambda o=o: sp.resize(x2.copy(), o)) for o in ([2, 3], [3, 2], [6], [4, 5], [1, 6])]
    F["poisson.configs"] = [(lambda c=c: mr.samp.poisson((16, 16), 2, calib=c, seed=0, tol=0.3)) for c in ((0, 0), (4, 4), (4, 6))]
    F["dirac-hanning"] = [lambda: sp.util.hanning([4, 5]), lambda: sp.util.triang([4, 5]), lambda: sp.util.hanning([5, 4])]
    return F


class _Lazy(dict):
    def __init__(self, mk):
        self._mk = mk
        self._done = False

    def _ensure(self):
        if not self._done:
            self._done = True
            self.update(self._mk())

    def __getitem__(self, k):
        self._ensure()
        return dict.__getitem__(self, k)

    def __iter__(self):
        self._ensure()
        return dict.__iter__(self)


FUNCS = _Lazy(_mk_funcs)
PROXES = _Lazy(_mk_proxes)
FAMILIES = _Lazy(_mk_families)


def _bytes_of(args):
    out = []
    for a in args:
        if isinstance(a, np.ndarray):
            out.append((a.tobytes(), a.dtype.str, a.shape))
        elif isinstance(a, (list, tuple)) and any(isinstance(x, np.ndarray) for x in a):
            out.append(tuple((x.tobytes(), x.dtype.str, x.shape) for x in a))
        else:
            out.append(repr(a))
    return out


def _same(o1, o2):
    if isinstance(o1, (list, tuple)):
        return len(o1) == len(o2) and all(_same(a, b) for a, b in zip(o1, o2))
    if o1 is None:
        return o2 is None
    a, b = np.asarray(o1), np.asarray(o2)
    return a.shape == b.shape and a.dtype == b.dtype and np.array_equal(a, b, equal_nan=True)


def run_func(case, seed):
    name, variant = case["name"], case["variant"]
    viol = []

    def V(oracle, when, detail):
        viol.append(dict(oracle=oracle, key=dict(site=name, when=when), detail=detail))

    def build_args():
        fn_, args_, mut_ = FUNCS[name][1](variant)
        if variant == 6:
            for i in mut_:      # an output argument has to be writeable
                if isinstance(args_[i], np.ndarray):
                    args_[i] = np.array(args_[i])
        return fn_, args_, mut_
    fn, args, mutable = build_args()
    before = _bytes_of(args)
    np.random.seed(seed % 2 ** 32)
    try:
        out1 = fn(*args)
    except Exception as e:
        if (variant % 3 == 0 and variant < 3 or variant >= 3) and variant != 6:
            raise
        # (a refusal of a read-only argument is loud, hence tolerated as well)
        # a refusal of a complex64 / real-dtype argument is tolerated (nothing silently changed)
        after = _bytes_of(args)
        for i, (b, a) in enumerate(zip(before, after)):
            if i not in mutable and a != b:
                V("input-mutated", "argument %d, call raised" % i, "argument %d changed although the call raised %s" % (i, type(e).__name__))
        return dict(states=1, transitions=1, nontrivial=True, outcome="raised" if not viol else "violation:input-mutated", viol=viol)
    out1c = _copy(out1)
    after = _bytes_of(args)
    for i, (b, a) in enumerate(zip(before, after)):
        if i not in mutable and a != b:
            V("input-mutated", "argument %d" % i, "argument %d of %s was modified by the call (variant %d: dtype %s layout %s)" % (
                i, name, variant, _v(variant)[0].__name__, _v(variant)[1]))
    # layout invariance: Fortran-ordered / strided arguments must give the values of their C-contiguous twins
    if variant >= 3:
        fn3, args3, _ = build_args()
        args3 = [np.ascontiguousarray(a) if isinstance(a, np.ndarray) else
                 ([np.ascontiguousarray(x) for x in a] if isinstance(a, list) and a and isinstance(a[0], np.ndarray) else a) for a in args3]
        np.random.seed(seed % 2 ** 32)
        out3 = fn3(*args3)
        c1 = out1c if not mutable else args[mutable[0]]
        c3 = out3 if not mutable else args3[mutable[0]]
        if not _same_values(c1, c3):
            V("layout-invariance", "non-contiguous argument", "%s gives different values for a %s argument than for its C-contiguous copy" % (
                name, _LAYNAME[_LAY[variant]]))
    # a returned array belongs to the caller: scribbling over it must not influence a later call (memoised results)
    if isinstance(out1, np.ndarray) and out1.flags.writeable and not mutable:
        try:
            out1 *= -1
            out1 += 7
        except Exception:
            pass
    # repeatability on fresh, equal arguments (and same RNG seed)
    fn2, args2, _ = build_args()
    np.random.seed(seed % 2 ** 32)
    out2 = fn2(*args2)
    cmp1 = out1c if not mutable else args[mutable[0]]
    cmp2 = out2 if not mutable else args2[mutable[0]]
    if not _same(cmp1, cmp2):
        V("determinism", "repeated call", "%s returned a different result for equal arguments" % name)
    # output aliasing an input is allowed; but then writing the output must not be how inputs change - nothing to check
    return dict(states=2, transitions=2, nontrivial=True,
                outcome="ok" if not viol else "violation:" + viol[0]["oracle"], viol=viol)


def _same_values(o1, o2):
    if isinstance(o1, (list, tuple)):
        return len(o1) == len(o2) and all(_same_values(a, b) for a, b in zip(o1, o2))
    if o1 is None:
        return o2 is None
    a, b = np.asarray(o1), np.asarray(o2)
    return a.shape == b.shape and np.allclose(a, b, rtol=1e-12, atol=1e-12, equal_nan=True)


def _copy(o):
    if isinstance(o, (list, tuple)):
        return [_copy(x) for x in o]
    if isinstance(o, np.ndarray):
        return o.copy()
    return o


def run_prox(case, seed):
    name, variant = case["name"], case["variant"]
    viol = []

    def V(oracle, when, detail):
        viol.append(dict(oracle=oracle, key=dict(site="prox." + name, when=when), detail=detail))

    P = PROXES[name]()
    dt = _DT[variant] if variant < 3 else np.complex128
    if name.startswith("BoxConstraint"):
        dt = np.float64 if variant != 1 else np.float32
    x = _arr(P.shape, dt, 8, _LAY[variant])
    if name == "PsdProj":
        x = x + x.conj().T
    x0 = x.copy()
    snap = snapshot.walk(P)
    outs = []
    trans = 0
    for alpha in (0.5, 2.0, 0.5):
        try:
            y = P(alpha, x)
        except Exception:
            if variant == 0:
                raise
            y = None
        trans += 1
        outs.append(None if y is None else np.array(y))
        if x.tobytes() != x0.tobytes():
            V("input-mutated", "input", "prox %s modified its input (alpha=%s, dtype %s)" % (name, alpha, np.dtype(dt).name))
            x[...] = x0
        snap2 = snapshot.walk(P)
        for p, d in snap.items():
            if snap2.get(p) != d:
                V("captured-array-mutated", "captured", "prox %s changed its own array at %s" % (name, p))
        snap = snap2
    if variant >= 3 and outs[0] is not None and name != "PsdProj":
        yc = PROXES[name]()(0.5, np.ascontiguousarray(x0))
        if not _same_values(outs[0], yc):
            V("layout-invariance", "non-contiguous input", "prox %s gives different values for a %s input than for its C-contiguous copy" % (
                name, _LAYNAME[_LAY[variant]]))
    if outs[0] is not None and outs[2] is not None and not _same(outs[0], outs[2]):
        V("determinism", "repeated call", "prox %s: third call (same alpha) differs from the first" % name)
    return dict(states=3, transitions=trans, nontrivial=True,
                outcome="ok" if not viol else "violation:" + viol[0]["oracle"], viol=viol)


_solo = {}


def _spawn(tokens):
    import os
    import subprocess
    import sys
    env = dict(os.environ)
    r = subprocess.run([sys.executable, "-W", "ignore", "-m", "vf.prochist"] + tokens, capture_output=True, text=True,
                       timeout=600, env=env, cwd=os.environ.get("VERIF_HOME", "/verif"))
    for line in r.stdout.splitlines():
        if line.startswith("PROCHIST "):
            return line[9:]
    raise RuntimeError("prochist driver failed: " + r.stderr[-400:])


def run_prochist(case, seed):
    name = case["name"]
    tok_b = "%s:%d" % (name, case["then"])
    tok_a = "%s:%d" % (name, case["first"])
    if tok_b not in _solo:
        _solo[tok_b] = _spawn([tok_b])
    solo = _solo[tok_b]
    after = _spawn([tok_a, tok_b])
    viol = []
    if solo != after:
        viol.append(dict(oracle="process-history", key=dict(site=name, when="result depends on an earlier call in the same process"),
                         detail="%s variant %d alone gives [%s]; after variant %d was called first in the process it gives [%s] "
                                "(variants: 0 complex128, 1 complex64, 2 float64)" % (name, case["then"], solo, case["first"], after)))
    return dict(states=2, transitions=3, traces=2, nontrivial=True, outcome="ok" if not viol else "violation:process-history", viol=viol)


def run_confhist(case, seed):
    from vf import prochist
    fam = case["family"]
    fns = FAMILIES[fam]
    viol = []
    fresh = [_spawn(["fam:%s:%d" % (fam, i)]) for i in range(len(fns))]
    states = len(fns)
    trans = len(fns)
    for a in range(len(fns)):
        for b in range(len(fns)):
            try:
                ra = fns[a]()
                for arr in (ra if isinstance(ra, (list, tuple)) else [ra]):
                    if isinstance(arr, np.ndarray) and arr.flags.writeable:
                        arr *= -1      # the caller owns what it was given back
            except Exception:
                pass
            try:
                got = prochist.describe(fns[b]())
            except Exception as e:
                got = "raised " + type(e).__name__
            trans += 2
            if got != fresh[b]:
                viol.append(dict(oracle="process-history", key=dict(site=fam, when="result depends on an earlier call in the same process"),
                                 detail="%s: configuration %d gives [%s] as the only call of a fresh process but [%s] after configuration %d "
                                        "(and whatever ran before) in this process" % (fam, b, fresh[b], got, a)))
                return dict(states=states, transitions=trans, traces=trans, nontrivial=True, outcome="violation:process-history", viol=viol)
    return dict(states=states, transitions=trans, traces=len(fns) ** 2, nontrivial=True, outcome="ok", viol=viol)


def run_case(case, seed):
    if case["kind"] == "confhist":
        return run_confhist(case, seed)
    if case["kind"] == "prochist":
        return run_prochist(case, seed)
    if case["kind"] == "op":
        return run_op(case, seed)
    if case["kind"] == "func":
        return run_func(case, seed)
    return run_prox(case, seed)
