"""C11 — every proximal operator returns the exact minimiser, in the input's shape.

Alphabet (E3 prox programs): leaves L1Reg, L2Reg(+/-bias), L2Proj(+/-bias, axes),
LInfProj(+/-bias), L1Proj, PsdProj, BoxConstraint(scalar/array), NoOp;
combinators Conj, Stack, UnitaryTransform(FFT / Transpose / Haar wavelet),
L2Reg(proxh=.); all nestings with <= 2 combinators.  Inputs: the full lattice
{-2,-1,-1/2,0,1/2,1,2}^n and its complex analogue (zeros, points exactly on
thresholds and ball boundaries, interior points, ties); PsdProj: Hermitian
matrices with repeated eigenvalues in rotated bases and non-Hermitian inputs.
Oracle: not a re-implementation but an optimality certificate:
x = prox_{alpha g}(y) iff (y-x)/alpha in dg(x) (vf.ref.proxcert); output shape ==
input shape exactly; projections idempotent and identity on feasible inputs.
"""
import itertools

import numpy as np

from vf import dense
from vf.ref import proxcert as pc

PID = "C11"
LEVEL = "exploration"
ENGINE = "E3"
TECHNIQUE = ("bounded-exhaustive enumeration of prox nestings x parameter grid x full input lattice on the real code; "
             "subdifferential / normal-cone optimality certificates as the oracle")
LEVEL_TEXT = ("Every prox nesting up to two combinators is evaluated on every point of a small input lattice chosen to contain "
              "every qualitative case (zero, on / inside / outside thresholds and balls, ties, repeated eigenvalues) and the "
              "result is certified optimal by a subdifferential membership test; prox maps are non-linear, so the verdict "
              "is bounded-exhaustive over the lattice only (exploration).")
LEVEL_NOTE = "Between lattice points nothing is claimed; BoxConstraint on real data only; certificate tolerance 1e-9."
RULE = ("one case = (prox program, shape, alpha) x every lattice input; non-trivial inputs = those where the result differs "
        "from the input (the prox actually moves the point); distinct by (program, alpha)")
ASSUMPTIONS = ["complex vectors as real vector spaces with Re<a,b>", "UnitaryTransform operands verified unitary (dense) before use"]
CHUNK = 8
TOL = 1e-9
REAL_L = (-2.0, -1.0, -0.5, 0.0, 0.5, 1.0, 2.0)
CPLX_L = (0.0, 1.0, -1.0, 1j, -1j, (1 + 1j) / np.sqrt(2) * 0.5, (1 - 1j) / np.sqrt(2) * 2.0)


def bounds(tier):
    return {"leaves": [l["p"] for l in LEAVES], "combinators": ["Conj", "Stack", "UnitaryTransform(FFT|Transpose|Haar)", "L2Reg(proxh=.)"],
            "nesting": "<= 2 combinators (second level on shape [2] only in quick)",
            "shapes": [[2], [3], [2, 1], [2, 2]] + ([[2, 1, 2]] if tier == "thorough" else []),
            "alpha": [0.5, 1.0, 2.0], "inputs": "7^n real lattice + 7^n complex lattice, n<=3 (n=4: 4^4 / 7^4 thorough)"}


# leaf programs; "cplx": may be fed complex inputs
LEAVES = [
    dict(p="NoOp"),
    dict(p="L1Reg", lam=0.5), dict(p="L1Reg", lam=1.0),
    dict(p="L2Reg", lam=0.5), dict(p="L2Reg", lam=1.0, bias=True),
    dict(p="L2Proj", eps=1.0), dict(p="L2Proj", eps=0.5, bias=True), dict(p="L2Proj", eps=1.0, axes=[-1]), dict(p="L2Proj", eps=1.0, axes=[0]),
    dict(p="LInfProj", eps=0.5), dict(p="LInfProj", eps=1.0, bias=True),
    dict(p="L1Proj", eps=1.0), dict(p="L1Proj", eps=0.5),
    dict(p="Box", lo=-0.5, hi=1.0), dict(p="Box", arr=True),
    dict(p="Box", arr="rows"),                     # limits that vary along the FIRST axis and broadcast along the later ones
    dict(p="Box", lo=0.0, hi=float("inf")),        # non-negativity
    dict(p="Box", lo=-float("inf"), hi=0.5),       # one-sided from above
    dict(p="Box", lo=0.0, hi=1e12),                # an asymmetric box whose far bound is never active
]


def _wrap1(t):
    yield dict(p="Conj", kid=t)
    yield dict(p="L2RegH", lam=0.5, bias=True, kid=t)
    yield dict(p="L2RegH", lam=1.0, bias=False, kid=t)
    for A in ("FFT", "Transpose", "Haar"):
        yield dict(p="Unitary", A=A, kid=t)
    yield dict(p="Stack", kids=[t, dict(p="L1Reg", lam=0.5)])
    yield dict(p="Stack", kids=[dict(p="L2Proj", eps=1.0), t])
    yield dict(p="Stack", kids=[t, t], same=True)     # ONE prox object in both slots
    yield dict(p="Stack", kids=[t, dict(p="L1Reg", lam=0.5), dict(p="L2Proj", eps=1.0)])            # three and four blocks:
    yield dict(p="Stack", kids=[dict(p="L2Reg", lam=1.0, bias=True), dict(p="LInfProj", eps=0.5), t, dict(p="L1Reg", lam=1.0)])   # the 3rd, 4th offset


def programs(depth):
    out = list(LEAVES)
    lvl = list(LEAVES)
    for _ in range(depth):
        nxt = []
        for t in lvl:
            nxt.extend(_wrap1(t))
        out.extend(nxt)
        lvl = nxt
    return out


def _wide_stack(prog):
    if prog["p"] == "Stack" and len(prog["kids"]) > 2:
        return True
    return any(_wide_stack(k) for k in ([prog["kid"]] if "kid" in prog else prog.get("kids", [])))


def gen_cases(tier, seed):
    cases = _gen_cases(tier, seed)
    # stacks of three and four blocks only at one level and on the smallest shape (their lattices grow as 2^(4n))
    def flat(prog):
        return prog["p"] == "Stack" and all("kid" not in k and "kids" not in k for k in prog["kids"])
    return [c for c in cases if not (c.get("prog") and _wide_stack(c["prog"]) and
                                     (c.get("shape") != [2] or not flat(c["prog"]) or c["kind"] != "prox" or c.get("aform")))]


def _gen_cases(tier, seed):
    T = tier == "thorough"
    cases = []
    shapes1 = [[2], [3], [2, 1], [2, 2]] + ([[2, 1, 2]] if T else [])
    for prog in programs(1):
        for sh in shapes1:
            for alpha in (0.5, 1.0, 2.0):
                cases.append(dict(kind="prox", prog=prog, shape=sh, alpha=alpha, small=not T))
    # the step size in other accepted forms: a Python int, NumPy integer scalars, a 0-d integer array (a single-precision scalar legitimately costs precision and is not included)
    for prog in programs(1):
        for aform, alpha in (("int", 2), ("int", 1), ("np.int64", 2), ("np.int32", 3), ("0-d int array", 2)):
            cases.append(dict(kind="prox", prog=prog, shape=[2], alpha=alpha, small=True, aform=aform))
    two = programs(2)[len(programs(1)):]
    for prog in two:
        for sh in ([[2], [2, 2]] if T else [[2]]):
            for alpha in ((0.5, 2.0) if not T else (0.5, 1.0, 2.0)):
                cases.append(dict(kind="prox", prog=prog, shape=sh, alpha=alpha, small=not T))
    # scale regimes: prox_{alpha g} is equivariant under y -> c y when the parameters of g are scaled with it, so the
    # unit-scale certificate applied to x/c decides the result; an absolute guard (machine eps added to a norm,
    # "treat as zero below 1e-8") only shows far from unit scale
    for prog in LEAVES:
        if prog["p"] in ("NoOp",):
            continue
        for c in (1e-15, 1e-7, 1e8):
            for dt in ("f64", "c128"):   # (the certificates' boundary tests are not meaningful at single precision)
                if prog["p"] == "Box" and dt.startswith("c"):
                    continue
                cases.append(dict(kind="prox-scale", prog=prog, c=c, dtype=dt))
    # step-size histories: iterative solvers keep the step size in one buffer and rescale it in place between calls
    # (PDHG's acceleration does); the result may depend only on the current value, not on which object carries it
    for prog in programs(1):
        for sh in ([2], [2, 1]):
            cases.append(dict(kind="alpha-hist", prog=prog, shape=sh))
    # ... and at the edge of the floating-point range, for the operators whose definition involves no squares (a product
    # like eps*|x| formed before a division overflows at 1e155 although the result is representable)
    for prog in LEAVES:
        if prog["p"] in ("L1Reg", "LInfProj", "L1Proj", "Box"):
            for c in (1e155, 1e-155, 1e300):
                for dt in ("f64", "c128"):
                    if prog["p"] == "Box" and dt.startswith("c"):
                        continue
                    cases.append(dict(kind="prox-scale", prog=prog, c=c, dtype=dt))
    for n in (2, 3):
        for alpha in (0.5, 2.0):
            cases.append(dict(kind="psd", n=n, alpha=alpha))
    for lam in (0.5, 1.0):
        cases.append(dict(kind="thresh", lam=lam))
    return cases


def uses(prog, name):
    if prog["p"] == name:
        return True
    return any(uses(k, name) for k in ([prog["kid"]] if "kid" in prog else prog.get("kids", [])))


def _bias(shape, tag):
    n = dense.prod(shape)
    return ((np.arange(n) % 3 - 1) * 0.5 + 0.25 * tag).reshape(shape).astype(np.float64)


def build(prog, shape, cplx):
    """-> (sigpy Prox, certificate G, shape)   (shape may change for Stack)"""
    import sigpy as sp
    P = prog["p"]
    cd = (lambda a: a.astype(np.complex128) * (1 + 0.5j)) if cplx else (lambda a: a)
    if P == "NoOp":
        return sp.prox.NoOp(shape), pc.Zero(), shape
    if P == "L1Reg":
        return sp.prox.L1Reg(shape, prog["lam"]), pc.L1(prog["lam"]), shape
    if P == "L2Reg":
        z = cd(_bias(shape, 1)) if prog.get("bias") else None
        return sp.prox.L2Reg(shape, prog["lam"], y=z), pc.L2Sq(prog["lam"], z), shape
    if P == "L2RegH":
        kp, kg, ks = build(prog["kid"], shape, cplx)
        z = cd(_bias(ks, 2)) if prog.get("bias") else None
        return sp.prox.L2Reg(ks, prog["lam"], y=z, proxh=kp), pc.L2Sq(prog["lam"], z, kg), ks
    if P == "L2Proj":
        z = cd(_bias(shape, 3)) if prog.get("bias") else 0
        ax = prog.get("axes")
        ax = None if ax is None else tuple(ax)
        return sp.prox.L2Proj(shape, prog["eps"], y=z, axes=ax), pc.L2Ball(prog["eps"], z, ax), shape
    if P == "LInfProj":
        b = cd(_bias(shape, 4)) if prog.get("bias") else None
        return sp.prox.LInfProj(shape, prog["eps"], bias=b), pc.LInfBall(prog["eps"], b), shape
    if P == "L1Proj":
        return sp.prox.L1Proj(shape, prog["eps"]), pc.L1Ball(prog["eps"]), shape
    if P == "Box":
        if prog.get("arr") == "rows":
            lshape = [shape[0]] + [1] * (len(shape) - 1)
            lo = (-np.abs(_bias(lshape, 5)) - 0.25 * np.arange(1, shape[0] + 1).reshape(lshape))
            hi = (np.abs(_bias(lshape, 6)) + 0.5 * np.arange(1, shape[0] + 1).reshape(lshape))
        elif prog.get("arr"):
            lo = -np.abs(_bias(shape, 5)) - 0.25
            hi = np.abs(_bias(shape, 6)) + 0.5
        else:
            lo, hi = prog["lo"], prog["hi"]
        return sp.prox.BoxConstraint(shape, lo, hi), pc.Box(lo, hi), shape
    if P == "Conj":
        kp, kg, ks = build(prog["kid"], shape, cplx)
        return sp.prox.Conj(kp), pc.ConjOf(kg), ks
    if P == "Stack":
        built = [build(k, shape, cplx) for k in prog["kids"]]
        if prog.get("same"):
            built[1] = built[0]
        shapes = [b[2] for b in built]
        return sp.prox.Stack([b[0] for b in built]), pc.StackOf([b[1] for b in built], shapes), [sum(dense.prod(s) for s in shapes)]
    if P == "Unitary":
        if prog["A"] == "FFT":
            A = sp.linop.FFT(shape)
        elif prog["A"] == "Transpose":
            A = sp.linop.Transpose(shape)
        else:
            if any(s % 2 for s in shape):
                raise Skip("Haar needs even lengths to be unitary")
            A = sp.linop.Wavelet(shape, wave_name="haar", level=1)
        kp, kg, ks = build(prog["kid"], list(A.oshape), cplx)
        if list(ks) != list(A.oshape):
            raise Skip("inner prox changes shape (Stack) - not composable with a transform")
        M = dense.dense_linop(A)
        if not dense.relerr(M.conj().T @ M, np.eye(M.shape[1])) <= 1e-9 or M.shape[0] != M.shape[1]:
            raise Skip("transform not unitary")
        return sp.prox.UnitaryTransform(kp, A), pc.Transported(kg, M, shape, list(A.oshape)), shape
    raise ValueError(P)


class Skip(Exception):
    pass


def lattice(n, cplx, tier_small=False):
    """Full 7-value lattice for n <= 3 (thorough: n <= 4); thinned alphabets beyond so that
    the product stays small: 4 values for n = 4, 3 for n in 5..6, 2 above."""
    vals = CPLX_L if cplx else REAL_L
    if n == 4 and tier_small:
        vals = (vals[1], vals[3], vals[4], vals[6])
    elif 5 <= n <= 6 or (n == 4 and not tier_small and False):
        vals = (vals[1], vals[3], vals[6])
    elif n >= 7:
        vals = (vals[1], vals[4])
    return itertools.product(vals, repeat=n)


def build_scaled(prog, shape, c, dt):
    """Leaf prox with every parameter that carries the scale of x multiplied by c (and the unit-scale certificate)."""
    import sigpy as sp
    P = prog["p"]
    cplx = dt in ("c128", "c64")
    ndt = {"f64": np.float64, "c128": np.complex128, "f32": np.float32, "c64": np.complex64}[dt]
    cd = (lambda a: (a.astype(np.complex128) * (1 + 0.5j))) if cplx else (lambda a: a)
    if P == "L1Reg":
        return sp.prox.L1Reg(shape, prog["lam"] * c), pc.L1(prog["lam"])
    if P == "L2Reg":
        z = cd(_bias(shape, 1)) if prog.get("bias") else None
        return sp.prox.L2Reg(shape, prog["lam"], y=None if z is None else (c * z).astype(ndt)), pc.L2Sq(prog["lam"], z)
    if P == "L2Proj":
        z = cd(_bias(shape, 3)) if prog.get("bias") else 0
        ax = prog.get("axes")
        ax = None if ax is None else tuple(ax)
        return sp.prox.L2Proj(shape, prog["eps"] * c, y=(c * z).astype(ndt) if prog.get("bias") else 0, axes=ax), pc.L2Ball(prog["eps"], z, ax)
    if P == "LInfProj":
        b = cd(_bias(shape, 4)) if prog.get("bias") else None
        return sp.prox.LInfProj(shape, prog["eps"] * c, bias=None if b is None else (c * b).astype(ndt)), pc.LInfBall(prog["eps"], b)
    if P == "L1Proj":
        return sp.prox.L1Proj(shape, prog["eps"] * c), pc.L1Ball(prog["eps"])
    if P == "Box":
        if prog.get("arr"):
            lo = -np.abs(_bias(shape, 5)) - 0.25
            hi = np.abs(_bias(shape, 6)) + 0.5
            return sp.prox.BoxConstraint(shape, (c * lo).astype(ndt), (c * hi).astype(ndt)), pc.Box(lo, hi)
        return sp.prox.BoxConstraint(shape, prog["lo"] * c, prog["hi"] * c), pc.Box(prog["lo"], prog["hi"])
    raise ValueError(P)


def run_prox_scale(case, viol):
    prog, c, dt = case["prog"], case["c"], case["dtype"]
    shape = [3]
    cplx = dt in ("c128", "c64")
    ndt = {"f64": np.float64, "c128": np.complex128, "f32": np.float32, "c64": np.complex64}[dt]
    single = dt in ("f32", "c64")
    tol = 2e-5 if single else 1e-8
    P, Gc = build_scaled(prog, shape, c, dt)
    site = prog["p"]
    evals = moved = 0
    seen = set()
    for pt in lattice(3, cplx):
        y1 = np.array(pt, dtype=np.complex128 if cplx else np.float64)
        y = (c * y1).astype(ndt)
        y0 = y.copy()
        x = np.asarray(P(1.0, y))
        evals += 1
        if list(x.shape) != shape:
            viol.append(dict(oracle="output-shape", key=dict(site=site, when="scaled"), detail=str(x.shape)))
            break
        xu = x.astype(np.complex128 if cplx else np.float64) / c
        vu = (y0.astype(np.complex128 if cplx else np.float64) / c - xu) / 1.0
        d = Gc.defect(xu, vu) if not single else _defect_single(Gc, xu, vu)
        if not d <= tol and "cert" not in seen:
            seen.add("cert")
            viol.append(dict(oracle="optimality-certificate", key=dict(site=site, when="inputs and parameters scaled by %g, %s" % (c, dt)),
                             detail="y = %g * %s: x/c = %s is not the unit-scale minimiser (defect %.3g); program %s" % (
                                 c, np.array2string(y1, precision=3), np.array2string(xu, precision=6), d, prog)))
        if np.abs(xu - y1).max() > 1e-12:
            moved += 1
    return dict(states=evals, transitions=evals, traces=evals, nontrivial=moved > 0,
                outcome="ok" if not viol else "violation:" + viol[0]["oracle"], viol=viol)


def _defect_single(Gc, xu, vu):
    """Single precision moves points by ~1e-7 relative, which can cross the certificates' interior/boundary tests;
    accept the result if ANY point within 3e-6 of x/c (towards or away from the origin) carries a valid certificate."""
    best = Gc.defect(xu, vu)
    for f in (1 - 3e-6, 1 + 3e-6, 1 - 1e-6, 1 + 1e-6):
        best = min(best, Gc.defect(xu * f, vu + xu * (1 - f)))
    return best


def run_case(case, seed):
    import sigpy as sp
    viol = []
    if case["kind"] == "prox-scale":
        return run_prox_scale(case, viol)
    if case["kind"] == "alpha-hist":
        return run_alpha_hist(case, viol)
    if case["kind"] == "psd":
        return run_psd(case, viol)
    if case["kind"] == "thresh":
        return run_thresh(case, viol)
    prog, shape, alpha = case["prog"], case["shape"], case["alpha"]
    aform = case.get("aform")
    aobj = alpha if aform is None else {"int": int, "np.int64": np.int64, "np.int32": np.int32, "np.float32": np.float32,
                                         "0-d int array": lambda v: np.array(int(v))}[aform](alpha)
    alpha = float(alpha)
    if aform == "0-d int array" and uses(prog, "Stack"):
        return dict(states=1, transitions=1, nontrivial=False, outcome="skipped", viol=[])   # Stack splits non-scalar step sizes by block
    site = prog["p"] + ("(" + (prog["kid"]["p"] if "kid" in prog else ",".join(k["p"] for k in prog["kids"])) + ")" if ("kid" in prog or "kids" in prog) else "")
    evals = moved = 0
    seen = set()
    real_only = uses(prog, "Box")
    fft_inside = uses_complex_transform(prog)  # real-dtype FFT input is computed in single precision by design
    for cplx in ((False,) if real_only else (False, True)):
        if real_only and uses_complex_transform(prog):
            continue
        try:
            P, Gc, sh = build(prog, shape, cplx)
        except Skip:
            return dict(states=1, transitions=1, nontrivial=False, outcome="skipped", viol=[])
        n = dense.prod(sh)
        held = held_copy = None
        for pt in lattice(n, cplx, tier_small=case.get("small", True)):
            y = np.array(pt, dtype=np.complex128 if (cplx or fft_inside) else np.float64).reshape(sh)
            y0 = y.copy()
            x = P(aobj, y)
            evals += 1
            when = "alpha=%s" % alpha if aform is None else "alpha given as %s" % aform
            # results are values: the array returned by the previous call still holds the previous minimiser
            if held is not None and ("held", site) not in seen and (held is x or np.asarray(held).tobytes() != held_copy):
                seen.add(("held", site))
                viol.append(dict(oracle="earlier-result-changed", key=dict(site=site, when="second call on the same object"),
                                 detail="the array returned for the previous input was %s by the call for y=%s; program %s" % (
                                     "returned again (same object)" if held is x else "overwritten", list(pt), prog)))
            held, held_copy = x, np.asarray(x).tobytes()
            if list(np.asarray(x).shape) != list(sh):
                if ("shape", site) not in seen:
                    seen.add(("shape", site))
                    viol.append(dict(oracle="output-shape", key=dict(site=site, when="shape"),
                                     detail="input shape %s, output shape %s (y=%s)" % (sh, list(np.asarray(x).shape), list(pt))))
                continue
            v = (y0 - x) / alpha
            d = Gc.defect(np.asarray(x), v) if np.all(np.isfinite(np.asarray(x))) else float("inf")
            if not d <= TOL:
                if ("cert", site) not in seen:
                    seen.add(("cert", site))
                    viol.append(dict(oracle="optimality-certificate", key=dict(site=site, when="complex input" if cplx else "real input"),
                                     detail="y=%s alpha=%s: x=%s is not the minimiser, (y-x)/alpha misses the subdifferential by %.3g; program %s" % (
                                         np.array2string(y0.ravel(), precision=3), alpha, np.array2string(np.asarray(x).ravel(), precision=4), d, prog)))
            if y.tobytes() != y0.tobytes() and ("mut", site) not in seen:
                seen.add(("mut", site))
                viol.append(dict(oracle="input-mutated", key=dict(site=site, when="input"), detail="prox modified its input"))
            if np.abs(np.asarray(x) - y0).max() > 1e-12:
                moved += 1
            if prog["p"] in ("L2Proj", "LInfProj", "L1Proj", "Box"):
                x2 = P(alpha, np.array(x))
                if not np.abs(np.asarray(x2) - x).max() <= 1e-9 and ("idem", site) not in seen:
                    seen.add(("idem", site))
                    viol.append(dict(oracle="idempotent", key=dict(site=site, when="projection"),
                                     detail="P(P(y)) != P(y) for y=%s" % (list(pt),)))
    # integer-valued inputs stored in an integer dtype ("for all y"): thresholds and radii must not be truncated to y's dtype
    if not fft_inside and not viol:
        try:
            P, Gc, sh = build(prog, shape, False)
        except Skip:
            P = None
        if P is not None:
            n = dense.prod(sh)
            for idt in (np.int64, np.int32):
                ipts = itertools.product((-2, -1, 0, 1, 3) if (n <= 2 and idt is np.int64) else ((-2, 0, 3) if n <= 4 else (-2, 3)), repeat=n)
                for pt in ipts:
                    y = np.array(pt, dtype=idt).reshape(sh)
                    try:
                        x = np.asarray(P(alpha, y))
                    except Exception:
                        break      # refusing an integer array is loud, hence acceptable
                    evals += 1
                    if list(x.shape) != list(sh):
                        continue
                    d = Gc.defect(x.astype(np.float64 if not np.iscomplexobj(x) else np.complex128), (y.astype(np.float64) - x) / alpha)
                    if not d <= TOL:
                        viol.append(dict(oracle="optimality-certificate", key=dict(site=site, when="integer-dtype input"),
                                         detail="y=%s (%s) alpha=%s: x=%s (%s) is not the minimiser, misses the subdifferential by %.3g; program %s" % (
                                             list(pt), np.dtype(idt).name, alpha, np.array2string(x.ravel(), precision=4), x.dtype, d, prog)))
                        break
                if viol:
                    break
    return dict(states=evals, transitions=evals, traces=evals, nontrivial=moved > 0,
                outcome="ok" if not viol else "violation:" + viol[0]["oracle"], viol=viol)


ALPHA_EVENTS = [("inplace", 0.5), ("inplace", 2.0), ("float", 0.5), ("float", 2.0), ("newarr", 1.0)]


def run_alpha_hist(case, viol):
    """All words of length 3 over ALPHA_EVENTS applied to ONE prox object: "inplace" overwrites the contents of the
    step-size array used so far (same object, new value), "newarr" switches to a fresh array, "float" passes a Python
    float.  After every event the prox is evaluated on a 3^n sub-lattice and certified for the CURRENT value."""
    prog, shape = case["prog"], case["shape"]
    site = prog["p"] + ("(" + (prog["kid"]["p"] if "kid" in prog else ",".join(k["p"] for k in prog["kids"])) + ")" if ("kid" in prog or "kids" in prog) else "")
    stack = uses(prog, "Stack")
    if stack and uses(prog, "Transpose"):
        return dict(states=1, transitions=1, nontrivial=False, outcome="skipped", viol=[])
    real_only = uses(prog, "Box")
    fft_inside = uses_complex_transform(prog)
    evals = words = 0
    distinct = set()
    for cplx in ((False,) if real_only else (False, True)):
        if real_only and fft_inside:
            continue
        try:
            _, Gc, sh = build(prog, shape, cplx)
        except Skip:
            return dict(states=1, transitions=1, nontrivial=False, outcome="skipped", viol=[])
        n = dense.prod(sh)
        vals = CPLX_L if cplx else REAL_L
        pts = list(itertools.product((vals[1], vals[3], vals[6]), repeat=n)) if n <= 3 else \
            list(itertools.product((vals[1], vals[6]), repeat=n))
        ashape = tuple(sh) if stack else ()    # Stack splits a non-scalar step size by block, so it needs one entry per element
        for word in itertools.product(range(len(ALPHA_EVENTS)), repeat=3):
            P, _, _ = build(prog, shape, cplx)
            buf = np.full(ashape, 1.0)
            words += 1
            for step, ei in enumerate(word):
                ev, a = ALPHA_EVENTS[ei]
                if ev == "inplace":
                    buf[...] = a
                    alpha = buf
                elif ev == "newarr":
                    buf = np.full(ashape, a)
                    alpha = buf
                else:
                    alpha = a
                for pt in pts:
                    y = np.array(pt, dtype=np.complex128 if (cplx or fft_inside) else np.float64).reshape(sh)
                    x = np.asarray(P(alpha, y.copy()))
                    evals += 1
                    if list(x.shape) != list(sh):
                        d = float("inf")
                    else:
                        d = Gc.defect(x, (y - x) / a)
                        distinct.add((a, x.tobytes()))
                    if not d <= TOL:
                        viol.append(dict(oracle="optimality-certificate-step-history",
                                         key=dict(site=site, when="step size %s" % ("carried in a reused array" if ev != "float" else "given as a float after array steps")),
                                         detail="events %s, at event %d (alpha=%s): y=%s -> x=%s misses the subdifferential by %.3g; program %s" % (
                                             [ALPHA_EVENTS[i] for i in word], step, a, np.array2string(y.ravel(), precision=3),
                                             np.array2string(x.ravel(), precision=4), d, prog)))
                        return dict(states=words, transitions=evals, traces=words, nontrivial=True,
                                    outcome="violation:optimality-certificate-step-history", viol=viol)
    return dict(states=words, transitions=evals, traces=words, nontrivial=len(distinct) > 1, outcome="ok", viol=viol)


def uses_complex_transform(prog):
    if prog["p"] == "Unitary" and prog["A"] == "FFT":
        return True
    return any(uses_complex_transform(k) for k in ([prog["kid"]] if "kid" in prog else prog.get("kids", [])))


def run_psd(case, viol):
    import sigpy as sp
    n, alpha = case["n"], case["alpha"]
    P = sp.prox.PsdProj([n, n])
    Gc = pc.Psd()
    th = 0.7
    Qs = [np.eye(n, dtype=complex)]
    R = np.eye(n, dtype=complex)
    R[:2, :2] = [[np.cos(th), -np.sin(th)], [np.sin(th), np.cos(th)]]
    Qs.append(R)
    F = np.exp(-2j * np.pi * np.outer(np.arange(n), np.arange(n)) / n) / np.sqrt(n)
    Qs.append(F)
    if n == 3:
        R2 = np.eye(3, dtype=complex)
        R2[1:, 1:] = [[np.cos(1.1), -np.sin(1.1)], [np.sin(1.1), np.cos(1.1)]]
        Qs.append(R @ R2)
    evals = moved = 0
    seen = set()
    for Q in Qs:
        for w in itertools.product((-1.0, 0.0, 1.0, 2.0), repeat=n):
            for herm in (True, False):
                Y = (Q * np.array(w)) @ Q.conj().T
                if not herm:
                    K = np.triu(np.ones((n, n)), 1) * (0.5 + 0.25j)
                    Y = Y + K - 0.3 * K.conj().T
                if np.isrealobj(Q) or np.allclose(Q.imag, 0):
                    Yin = np.real(Y) if herm else Y
                else:
                    Yin = Y
                Y0 = np.array(Yin)
                X = P(alpha, Yin)
                evals += 1
                rep = len(set(w)) < n
                when = ("repeated eigenvalues" if rep else "distinct eigenvalues") + (", non-Hermitian input" if not herm else "")
                if list(np.asarray(X).shape) != [n, n]:
                    viol.append(dict(oracle="output-shape", key=dict(site="PsdProj", when="shape"), detail=str(np.asarray(X).shape)))
                    continue
                d = Gc.defect(np.asarray(X, dtype=complex), (Y0 - X) / alpha)
                if not d <= 1e-8 and when not in seen:
                    seen.add(when)
                    viol.append(dict(oracle="optimality-certificate", key=dict(site="PsdProj", when=when),
                                     detail="eigenvalues %s: result is not the nearest PSD matrix (defect %.3g)" % (list(w), d)))
                if np.abs(X - Y0).max() > 1e-12:
                    moved += 1
                elif min(w) >= 0 and herm and np.abs(X - Y0).max() > 1e-9:
                    viol.append(dict(oracle="feasible-unchanged", key=dict(site="PsdProj", when=when), detail="PSD input was changed"))
                # the thresh function obeys the same
                X2 = sp.psd_proj(np.array(Y0))
                if not np.abs(X2 - X).max() <= 1e-9:
                    viol.append(dict(oracle="thresh-vs-prox", key=dict(site="thresh.psd_proj", when=when), detail="psd_proj differs from PsdProj"))
    return dict(states=evals, transitions=2 * evals, traces=evals, nontrivial=moved > 0,
                outcome="ok" if not viol else "violation:" + viol[0]["oracle"], viol=viol)


def run_thresh(case, viol):
    import sigpy as sp
    lam = case["lam"]
    evals = 0
    seen = set()
    for cplx in (False, True):
        for pt in lattice(2, cplx):
            y = np.array(pt, dtype=np.complex128 if cplx else np.float64)
            evals += 3
            s = sp.soft_thresh(lam, y)
            d = pc.L1(lam).defect(s, y - s)
            if not d <= TOL and "soft" not in seen:
                seen.add("soft")
                viol.append(dict(oracle="optimality-certificate", key=dict(site="thresh.soft_thresh", when="lattice"), detail="y=%s -> %s" % (list(pt), s)))
            h = sp.hard_thresh(lam, y)
            ref = np.where(np.abs(y) > lam, y, 0)
            if not np.array_equal(h, ref) and "hard" not in seen:
                seen.add("hard")
                viol.append(dict(oracle="definition", key=dict(site="thresh.hard_thresh", when="lattice"),
                                 detail="y=%s lam=%s -> %s, documented %s" % (list(pt), lam, h, ref)))
            for name, fn, Gc in (("thresh.l2_proj", lambda e, t: sp.l2_proj(e, t), pc.L2Ball(lam)),
                                 ("thresh.linf_proj", lambda e, t: sp.linf_proj(e, t), pc.LInfBall(lam)),
                                 ("thresh.l1_proj", lambda e, t: sp.l1_proj(e, t), pc.L1Ball(lam))):
                x = fn(lam, y.copy())
                if np.asarray(x).shape != y.shape or not Gc.defect(np.asarray(x), y - x) <= TOL:
                    if name not in seen:
                        seen.add(name)
                        viol.append(dict(oracle="optimality-certificate", key=dict(site=name, when="lattice"), detail="y=%s -> %s" % (list(pt), x)))
                evals += 1
    return dict(states=evals, transitions=evals, traces=evals, nontrivial=True,
                outcome="ok" if not viol else "violation:" + viol[0]["oracle"], viol=viol)
