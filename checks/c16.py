"""C16 — SENSE operator equals the explicit multi-coil encoding; recons minimise it.

Alphabet: image shapes x coils 1..4 x coil_batch_size in {None, 1..nc} x Cartesian /
non-Cartesian coordinate families x weights None/array x image dtype complex and real;
recon apps SenseRecon, TotalVariationRecon, L1WaveletRecon (Haar on [4,4]) x lamda x every
applicable solver x batch sizes, on consistent fully-determined and on noisy data.
Oracle: M(Sense) vs blockcol_c(diag(sqrt w) F diag(mps_c)) with F the DFT Kronecker matrix
(fp accuracy) or the exact NDFT matrix (NUFFT accuracy); batch invariance EXACT
(M(batch=b) == M(batch=None) to 1e-12, forward and adjoint); M(A.H) == M(A)^H.  Recons:
objective gap to a weak-duality-certified optimum of the documented objective built on the
EXPLICIT encoding matrix; consistent data => image reproduced.
"""
import itertools

import numpy as np

from vf import dense, opcat
from vf.ref import convex

PID = "C16"
LEVEL = "model_checking"
ENGINE = "E1"
TECHNIQUE = ("bounded-exhaustive enumeration of (shape, coils, batch size, coordinates, weights, dtype) configurations on the "
             "real factory; dense matrix by basis probing vs explicit multi-coil encoding matrix; exact batch-invariance "
             "identity; recon objective vs duality-certified optimum")
LEVEL_TEXT = ("Every operator configuration is extracted as a dense matrix and compared with the explicit encoding matrix and "
              "with its own unbatched twin, which decides forward and adjoint for all images; each recon app x solver x batch "
              "combination is run on the real App and its documented objective compared with a certified optimum.")
LEVEL_NOTE = ("Images <= 16 voxels, <= 4 coils; non-Cartesian accuracy = NUFFT accuracy (3% operator norm at the defaults); "
              "recon data are one consistent and one noisy seeded instance per configuration; transp_nufft and tseg are outside "
              "the statement (tseg operators are covered by C01).")
RULE = ("full product of the listed domains; one case = one operator configuration or one recon run; non-trivial = more than "
        "one coil or a non-trivial batch split")
ASSUMPTIONS = ["L1WaveletRecon only with a unitary wavelet operator (Haar, even shape), as the property states",
               "objective-gap tolerance 1e-5 relative (1e-4 for PDHG-based TV at the quick horizon)"]
CHUNK = 4


def bounds(tier):
    return {"images": IMGS, "coils": [1, 2, 3, 4], "batch": "None, 1..nc", "coords": [None, "random", "outside", "ongrid"],
            "weights": [False, True], "image dtype": ["complex128", "float64"],
            "recons": {"SenseRecon": ["CG", "GradientMethod", "PDHG", "ADMM"], "TotalVariationRecon": ["PDHG(default)", "ADMM"],
                       "L1WaveletRecon": ["GradientMethod(default)", "PDHG", "ADMM"]},
            "lamda": [0, 0.05], "data": ["consistent", "noisy"], "integer-typed options": "sigma / rho given as the Python ints 2 and 1", "conditioning": "2 coils with binary weights dropping ~40% of k-space (6 masks; cond up to 1e5)", "maps": ["generic", "one coil with zero map and zero data (index 0 or last)"]}


IMGS = [[2, 3], [3, 3], [4, 4], [2, 2, 3]]


def gen_cases(tier, seed):
    T = tier == "thorough"
    cases = []
    for img in IMGS:
        for nc in (1, 2, 3, 4):
            for cf in (None, "random", "outside", "ongrid"):
                for wts in (False, True):
                    if not T and nc == 4 and img != [2, 3] and cf not in (None, "random"):
                        continue
                    cases.append(dict(kind="op", img=img, nc=nc, coord=cf, weights=wts))
    for app in ("SenseRecon", "TotalVariationRecon", "L1WaveletRecon"):
        solvers = {"SenseRecon": [None, "GradientMethod", "PrimalDualHybridGradient", "ADMM"],
                   "TotalVariationRecon": [None, "ADMM"],
                   "L1WaveletRecon": [None, "PrimalDualHybridGradient", "ADMM"]}[app]
        for solver in solvers:
            for lam in ((0, 0.05) if app == "SenseRecon" else (0.02,)):
                for bs in (None, 1, 2):
                    if bs is not None and solver is not None and not T:
                        continue   # quick: batched recons with the default solver only (batch invariance is decided exactly on the operator)
                    for cf in (None, "random"):
                        for data in ("consistent", "noisy"):
                            for wts in (False, True):
                                if wts and (bs == 2 or data == "consistent") and not T:
                                    continue
                                cases.append(dict(kind="recon", app=app, solver=solver, lamda=lam, batch_size=bs, coord=cf,
                                                  data=data, weights=wts))
                                if not wts and bs is None and (solver is None or T):
                                    # a coil that sees nothing (zero map, zero data): valid maps and data; with two live
                                    # coils the problem stays fully determined
                                    for dead in (0, 2):
                                        cases.append(dict(kind="recon", app=app, solver=solver, lamda=lam, batch_size=bs, coord=cf,
                                                          data=data, weights=wts, dead=dead))
                                if wts and bs is None and cf is None and (solver is None or T):
                                    for wm in (1, 2, 3, 4, 5, 6):
                                        cases.append(dict(kind="recon", app=app, solver=solver, lamda=lam, batch_size=bs, coord=cf,
                                                          data=data, weights=wts, nc=2, wmask=wm))
                                if solver == "ADMM" and data == "noisy" and not wts and bs is None:
                                    cases.append(dict(kind="recon", app=app, solver=solver, lamda=lam, batch_size=bs, coord=cf,
                                                      data=data, weights=wts, rho=2.0))
    # step-size options given as Python ints (sigma=2, rho=2), as a user would type them
    for app, solver, opt in (("TotalVariationRecon", None, "sigma"), ("SenseRecon", "PrimalDualHybridGradient", "sigma"),
                             ("L1WaveletRecon", "PrimalDualHybridGradient", "sigma"), ("TotalVariationRecon", "ADMM", "rho"),
                             ("SenseRecon", "ADMM", "rho")):
        for cf in (None, "random"):
            for data in ("consistent", "noisy"):
                for val in (2, 1):
                    cases.append(dict(kind="recon", app=app, solver=solver, lamda=0.05 if app == "SenseRecon" else 0.02, batch_size=None,
                                      coord=cf, data=data, weights=False, intopt=[opt, val]))
    for lam in (0, 0.05):
        for wm in (1, 2, 3, 4, 5, 6):
            cases.append(dict(kind="recon", app="SenseRecon", solver=None, lamda=lam, batch_size=None, coord=None,
                              data="consistent", weights=True, nc=2, wmask=wm))
    return cases


def warmup():
    from checks import c06
    c06.warmup()


def explicit_matrix(img, mps, coord, weights):
    """blockcol_c( diag(sqrt w) F diag(mps_c) )"""
    from checks import c05, c06
    N = dense.prod(img)
    if coord is None:
        F = np.array([[1.0]])
        for n in img:
            F = np.kron(F, c05.dft_matrix(n, True, "ortho", False))
    else:
        F = c06.ndft_matrix(img, coord)
    blocks = []
    for c in range(mps.shape[0]):
        B = F * mps[c].ravel()[None, :]
        if weights is not None:
            B = np.sqrt(weights.ravel())[:, None] * B
        blocks.append(B)
    return np.vstack(blocks)


def make(case, seed):
    img, nc = case["img"], case["nc"]
    spec = dict(img=img, nc=nc, c=case.get("coord"))
    mps = opcat.carray([nc] + img, seed, spec, "mps")
    coord = None
    npts = dense.prod(img) + 3
    if case.get("coord"):
        coord = opcat.coords(case["coord"], img, npts, seed, spec, centered=True)
        if case["coord"] == "outside":
            coord = coord / 2.0
    weights = None
    if case.get("weights"):
        wshape = [npts] if coord is not None else img
        weights = np.abs(opcat.carray(wshape, seed, spec, "w", real=True)) + 0.1
    return mps, coord, weights


def run_case(case, seed):
    if case["kind"] == "op":
        return run_op(case, seed)
    return run_recon(case, seed)


def run_op(case, seed):
    import sigpy.mri as mr
    viol = []
    img, nc = case["img"], case["nc"]
    mps, coord, weights = make(case, seed)
    when = ("non-Cartesian" if coord is not None else "Cartesian") + (", weights" if weights is not None else "")

    def V(oracle, detail, w=None):
        viol.append(dict(oracle=oracle, key=dict(site="mri.linop.Sense", when=w or when), detail=detail + " | " + str(case)))
    E = explicit_matrix(img, mps, coord, weights)
    pristine = [None if a is None else a.copy() for a in (mps, coord, weights)]

    def built_from_unchanged(tag):
        for nm, a, p0 in zip(("mps", "coord", "weights"), (mps, coord, weights), pristine):
            if a is not None and a.tobytes() != p0.tobytes():
                V("built-from-array-mutated", "%s: the %s array the operator was built from was modified" % (tag, nm), "arrays the operator was built from")
                a[...] = p0
    A0 = mr.linop.Sense(mps, coord=coord, weights=weights)
    built_from_unchanged("construction (unbatched)")
    M0 = dense.dense_linop(A0)
    trans = M0.shape[1]
    if coord is None:
        e = dense.relerr(M0, E)
        if not e <= 1e-9:
            V("explicit-encoding", "max|M - E|/max|E| = %.3g" % e)
    else:
        e = float(np.linalg.norm(M0 - E, 2) / np.linalg.norm(E, 2))
        if not e <= 0.03:
            V("explicit-encoding", "||M - E||_2/||E||_2 = %.3g > 3%% (NUFFT accuracy)" % e)
    MH0 = dense.dense_linop(A0.H)
    trans += MH0.shape[1]
    if not dense.relerr(MH0, M0.conj().T) <= 1e-9:
        V("adjoint", "M(A.H) != M(A)^H (unbatched)")
    states = 1
    for bs in range(1, nc + 1):
        A = mr.linop.Sense(mps, coord=coord, weights=weights, coil_batch_size=bs)
        built_from_unchanged("construction (coil_batch_size=%d)" % bs)
        states += 1
        if list(A.oshape) != list(A0.oshape) or list(A.ishape) != list(A0.ishape):
            V("batch-shapes", "coil_batch_size=%d: shapes %s->%s vs %s->%s" % (bs, A.ishape, A.oshape, A0.ishape, A0.oshape), "batch invariance")
            continue
        M = dense.dense_linop(A)
        MH = dense.dense_linop(A.H)
        trans += M.shape[1] + MH.shape[1]
        e1, e2 = dense.relerr(M, M0), dense.relerr(MH, MH0)
        if not e1 <= 1e-12:
            V("batch-invariance", "coil_batch_size=%d: forward differs from the unbatched operator by %.3g" % (bs, e1), "batch invariance")
        if not e2 <= 1e-12:
            V("batch-invariance", "coil_batch_size=%d: adjoint differs from the unbatched operator by %.3g" % (bs, e2), "batch invariance")
        built_from_unchanged("application (coil_batch_size=%d)" % bs)
        # real-dtype image must give the same result as the same values in complex dtype
        xr = np.real(dense.dense_vec(M.shape[1], 3)).reshape(img)
        try:
            yr = np.asarray(A(xr.astype(np.float64))).ravel()
            trans += 1
            ref = M0 @ xr.ravel()
            err = np.abs(yr - ref).max() / max(1.0, np.abs(ref).max())
            if not err <= 2e-5:
                V("real-image", "coil_batch_size=%d: float64 image gives a result differing by %.3g from the complex-dtype result (output dtype %s)" % (
                    bs, err, yr.dtype), "real-dtype image")
        except Exception:
            pass
    return dict(states=states, transitions=trans, nontrivial=nc > 1,
                outcome="ok" if not viol else "violation:" + viol[0]["oracle"], viol=viol)


def run_recon(case, seed):
    import sigpy as sp
    import sigpy.mri as mr
    viol = []
    img = [4, 4]
    nc = case.get("nc", 3)
    c2 = dict(img=img, nc=nc, coord=case["coord"], weights=case["weights"])
    mps, coord, weights = make(c2, seed)
    if case.get("wmask"):
        # binary k-space weights that drop ~40% of the samples; with two coils the normal equations stay full rank but
        # become ill-conditioned (CG's residual norm is then far from monotone)
        rr = np.random.default_rng(case["wmask"] + seed)
        weights = (rr.random(img) > 0.4).astype(float)
        weights[0, 0] = weights[2, 1] = 1.0
    if coord is not None:
        # enough well-spread samples for a determined problem
        spec = dict(img=img, r=1)
        coord = opcat.coords("random", img, 24, seed, spec, centered=True)
        if weights is not None:
            weights = np.abs(opcat.carray([24], seed, spec, "w", real=True)) + 0.1
    app_name, solver, lam = case["app"], case["solver"], case["lamda"]
    when = "%s, solver=%s" % ("non-Cartesian" if coord is not None else "Cartesian", solver)

    def V(oracle, detail):
        viol.append(dict(oracle=oracle, key=dict(site="mri.app." + app_name, when=when), detail=detail + " | " + str(case)))
    if case.get("dead") is not None:
        mps = mps.copy()
        mps[case["dead"]] = 0
    E = explicit_matrix(img, mps, coord, None)          # unweighted encoding
    r = np.random.default_rng(9 + seed)
    xt = (r.standard_normal(img) + 1j * r.standard_normal(img))
    if app_name != "SenseRecon":
        xt = np.kron(np.array([[1.0, 1.0], [-0.5, 2.0]]), np.ones((2, 2))) * (1 + 0.3j)   # piecewise constant
    y = (E @ xt.ravel()).reshape([nc] + (img if coord is None else [coord.shape[0]]))
    if case["data"] == "noisy":
        y = y + 0.05 * (r.standard_normal(y.shape) + 1j * r.standard_normal(y.shape))
    if case.get("dead") is not None:
        y[case["dead"]] = 0
    # documented objective: 1/2 || sqrt(w) (E x - y) ||^2 + reg
    w_eff = weights
    if weights is None and coord is None:
        w_eff = None   # library estimates a mask (rss(y) > 0): all ones for this dense data
    Ew = E if w_eff is None else (np.sqrt(np.tile(w_eff.ravel(), nc))[:, None] * E)
    yw = y.ravel() if w_eff is None else np.sqrt(np.tile(w_eff.ravel(), nc)) * y.ravel()
    kind = par = Gm = None
    lam2 = 0.0
    if app_name == "SenseRecon":
        lam2 = lam
    elif app_name == "TotalVariationRecon":
        kind, par = "l1", lam
        # documented: G x = x - circshift(x, +1) along every axis, stacked (written out here, not taken from the library)
        n_ = dense.prod(img)
        blocks = []
        for a_ in range(len(img)):
            Pm = np.zeros((n_, n_))
            idx = np.arange(n_).reshape(img)
            Pm[np.roll(idx, 1, axis=a_).ravel() * 0 + np.arange(n_), np.roll(idx, 1, axis=a_).ravel()] = 1.0
            blocks.append(np.eye(n_) - Pm)
        Gm = np.vstack(blocks).astype(complex)
        Glib = dense.dense_linop(sp.linop.FiniteDifference(img))
        if Glib.shape != Gm.shape or not np.abs(Glib - Gm).max() <= 1e-12:
            V("finite-difference-definition", "linop.FiniteDifference%s is not x - circshift(x, 1) per axis (max diff %.3g)" % (
                img, float(np.abs(Glib - Gm).max()) if Glib.shape == Gm.shape else float("inf")))
    else:
        kind, par = "l1", lam
        W = sp.linop.Wavelet(img, wave_name="haar")
        Gm = dense.dense_linop(W)
        if not dense.relerr(Gm.conj().T @ Gm, np.eye(Gm.shape[1])) <= 1e-9 or Gm.shape[0] != Gm.shape[1]:
            raise RuntimeError("Haar transform not unitary - precondition of the property not met")
    if case.get("wmask"):
        cnd = np.linalg.cond(Ew)
        if not cnd < 1e5:
            return dict(states=1, transitions=1, nontrivial=False, outcome="skipped: under-determined mask (cond %.1e)" % cnd, viol=[])
    xr, wdual, Pr, D, gap = convex.solve(Ew, yw, kind, par, Gm, lam2, None, gap_tol=1e-12)
    kw = dict(coord=coord, weights=weights, coil_batch_size=case["batch_size"], show_pbar=False, tol=0)
    if solver is not None:
        kw["solver"] = solver
    deflt = {"SenseRecon": "ConjugateGradient", "TotalVariationRecon": "PrimalDualHybridGradient", "L1WaveletRecon": "GradientMethod"}[app_name]
    eff = solver or deflt
    kw["max_iter"] = {"ConjugateGradient": 300, "GradientMethod": 4000, "PrimalDualHybridGradient": 8000, "ADMM": 300}[eff]
    if eff == "ADMM":
        kw["max_cg_iter"] = 20
        if case.get("rho"):
            kw["rho"] = case["rho"]
    if case.get("intopt"):
        kw[case["intopt"][0]] = int(case["intopt"][1])
    y0 = y.copy()
    np.random.seed((seed + 4242) % 2 ** 32)
    if app_name == "SenseRecon":
        app = mr.app.SenseRecon(y, mps, lamda=lam, **kw)
    elif app_name == "TotalVariationRecon":
        app = mr.app.TotalVariationRecon(y, mps, lam, **kw)
    else:
        app = mr.app.L1WaveletRecon(y, mps, lam, wave_name="haar", **kw)
    x = app.run()
    xv = np.asarray(x).ravel().astype(complex)
    if list(np.asarray(x).shape) != img:
        V("output-shape", "recon returned shape %s" % (list(np.asarray(x).shape),))
    elif not np.all(np.isfinite(xv)):
        V("objective-gap", "recon returned non-finite values")
    else:
        P = convex.primal(Ew.astype(complex), yw.astype(complex), kind, par, Gm, lam2, None, xv)
        accE = 0.0 if coord is None else 0.03
        # a 3%-accurate operator moves the optimum value by O(acc * P); allow it for the non-Cartesian model
        tol = (1e-5 if eff != "PrimalDualHybridGradient" else 1e-4) * max(1.0, abs(D)) + 4 * accE * max(abs(D), 1e-3 * float(np.sum(np.abs(yw) ** 2)))
        if not P - D <= tol:
            V("objective-gap", "documented objective at the recon is %.8g, certified optimum %.8g (gap %.3g, tol %.3g)" % (P, D, P - D, tol))
        if case["data"] == "consistent" and app_name == "SenseRecon" and lam == 0 and coord is None:
            err = np.abs(xv - xt.ravel()).max() / np.abs(xt).max()
            if not err <= 1e-5:
                V("consistent-data-reproduced", "consistent fully determined data: image error %.3g" % err)
    # a finished recon asked again gives the same image
    if not viol:
        try:
            xa = np.asarray(app.run()).ravel().astype(complex)
            if xa.shape != xv.shape or not np.abs(xa - xv).max() <= 1e-10 * max(1.0, float(np.abs(xv).max())):
                V("second-run-differs", "run() called a second time returned a different image (max diff %.3g)" % (
                    float(np.abs(xa - xv).max()) if xa.shape == xv.shape else float("inf")))
        except Exception as e:
            V("second-run-differs", "run() called a second time raised %s: %s" % (type(e).__name__, str(e)[:100]))
    if y.tobytes() != y0.tobytes():
        V("input-mutated", "k-space array was modified")
    return dict(states=1, transitions=int(getattr(app.alg, "iter", 1)), nontrivial=True,
                outcome="ok" if not viol else "violation:" + viol[0]["oracle"], viol=viol)
