"""Reference Krylov-optimal iterate (no sigpy import).

x_k = argmin_{x in x0 + K_k(PA, P r0)} ||x - x*||_A  computed by orthonormalising
the Krylov basis (two passes of modified Gram-Schmidt, rank revealing) and
solving the projected system in extended precision.
"""
import numpy as np

LD = np.clongdouble


def _solve_ld(M, rhs):
    """Gaussian elimination with partial pivoting in clongdouble."""
    M = np.array(M, dtype=LD)
    b = np.array(rhs, dtype=LD)
    n = M.shape[0]
    for c in range(n):
        piv = c + int(np.argmax(np.abs(M[c:, c])))
        if piv != c:
            M[[c, piv]] = M[[piv, c]]
            b[[c, piv]] = b[[piv, c]]
        for r in range(c + 1, n):
            f = M[r, c] / M[c, c]
            M[r, c:] -= f * M[c, c:]
            b[r] -= f * b[c]
    x = np.zeros(n, dtype=LD)
    for c in range(n - 1, -1, -1):
        x[c] = (b[c] - np.dot(M[c, c + 1:], x[c + 1:])) / M[c, c]
    return x


def krylov_iterates(A, b, x0, P, kmax):
    """Returns list [x_0, x_1, ..., x_kmax] (complex128) and the dimension at
    which the Krylov space became invariant (None if not within kmax)."""
    A = np.array(A, dtype=LD)
    n = A.shape[0]
    Pm = np.eye(n, dtype=LD) if P is None else np.array(P, dtype=LD)
    b = np.array(b, dtype=LD).ravel()
    x0 = np.array(x0, dtype=LD).ravel()
    r0 = b - A @ x0
    out = [np.array(x0, dtype=np.complex128)]
    Q = []
    w = Pm @ r0
    scale = float(np.abs(w).max()) if n else 0.0
    invariant_at = None
    for k in range(1, kmax + 1):
        if invariant_at is None:
            v = np.array(w, dtype=LD)
            nv0 = float(np.sqrt(np.real(np.vdot(v, v))))
            for _ in range(2):
                for q in Q:
                    v = v - q * np.vdot(q, v)
            nv = float(np.sqrt(np.real(np.vdot(v, v))))
            if nv0 == 0 or nv <= 1e-13 * max(nv0, 1e-300) or scale == 0:
                invariant_at = k - 1
            else:
                q = v / nv
                Q.append(q)
                w = Pm @ (A @ q)
        if Q:
            V = np.stack(Q, axis=1)
            H = V.conj().T @ (A @ V)
            c = _solve_ld(H, V.conj().T @ r0)
            xk = x0 + V @ c
        else:
            xk = x0
        out.append(np.array(xk, dtype=np.complex128))
    return out, invariant_at
