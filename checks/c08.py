"""C08 — convolve matches the convolution definition; adjoints are exact.

Alphabet: D in 1..3 x data/filter lengths (filter shorter, equal, longer than
data, per axis incl. mixed) x batch shapes x channel counts x strides x mode x
dtype.
Oracle: convolution is bilinear, so it is decided by its values on ALL pairs of
basis arrays (e_p, f_q) (and i-multiples, to pin which argument is conjugated
in the adjoints).  Reference tensor from the definition
  out[b,co,p] = sum_{ci,t} data[b,ci, s p + t0 - t] filt[co,ci,t].
convolve_data_adjoint(., f) / convolve_filter_adjoint(., d) must equal the
conjugate transposes of the data- / filter-matrices, with the requested shapes.
Whatever is returned without an exception must equal the reference (values and
shape); for a combination the mode does not admit any returned array is a
violation; an exception is always acceptable.
"""
import itertools

import numpy as np

from vf import dense

PID = "C08"
LEVEL = "model_checking"
ENGINE = "E1"
TECHNIQUE = ("bounded-exhaustive enumeration of (D, shapes, channels, strides, mode, dtype) configurations on the real code; "
             "bilinear map decided on all basis pairs vs the definition of convolution; adjoints as conjugate-transpose matrices")
LEVEL_TEXT = ("Every configuration is evaluated on all pairs of basis arrays, which determines a bilinear map completely, and "
              "compared with the definition; both adjoints are extracted as dense matrices and compared with the conjugate "
              "transposes; admitted/rejected shape combinations are classified by the reference, so a silently wrong or "
              "empty result cannot pass.")
LEVEL_NOTE = "Lengths <= 5 (1-D), <= 3 (2-D), <= 2 (3-D), channels <= 2, strides <= 3; scipy.signal is the substrate, not the oracle."
RULE = ("full product of the listed domains (multi-channel/batch on a sub-family of shapes); non-trivial = reference output "
        "has >= 2 samples or the filter has >= 2 taps")
ASSUMPTIONS = ["an exception counts as rejection (always acceptable)", "tolerance 1e-10"]
CHUNK = 16
TOL = 1e-10


def bounds(tier):
    if tier == "thorough":
        return {"D=1": "m,n in 1..9, strides 1..5", "D=2": "m,n in {1,2,3,4}^2, strides {1,2,3}^2",
                "D=3": "m,n in {1,2,3}^3 (3x3x3-by-3x3x3 corner thinned to a third), strides {1,2}^3 for lengths <= 2, 2 stride vectors beyond",
                "batch": [[], [2]], "channels": "(ci,co) in {1,2,3}^2 on D=1 with m,n<=5, {1,2}^2 on four D=2 and two D=3 shape pairs",
                "modes": ["full", "valid"], "dtype": ["complex", "real", "real data x complex filter", "complex data x real filter"],
                "probes": "all basis pairs; structured values; mixed dtypes; component-wise accuracy; Linop adjoints"}
    return {"D=1": "m,n in 1..5, strides 1..3", "D=2": "m,n in {1,2,3}^2, 6 stride vectors",
            "D=3": "m,n in {1,2}^3, 4 stride vectors",
            "batch": [[], [2]], "channels": "(ci,co) in {1,2}^2 on D=1 all shapes with m,n<=3 and four D=2 shape pairs",
            "probes": "all basis pairs; structured values; mixed dtypes; component-wise accuracy; Linop adjoints",
            "modes": ["full", "valid"], "dtype": ["complex", "real", "real data x complex filter", "complex data x real filter"]}


def gen_cases(tier, seed):
    T = tier == "thorough"
    cases = []

    def add(m, n, mode, st, batch=(), mc=None, dt="cc"):
        cases.append(dict(kind="conv", m=list(m), n=list(n), mode=mode, strides=None if st is None else list(st),
                          batch=list(batch), mc=mc, dtype=dt))
    L1 = range(1, 10) if T else range(1, 6)
    for m in L1:
        for n in L1:
            for mode in ("full", "valid"):
                for st in ((None, [1], [2], [3], [4], [5]) if T else (None, [1], [2], [3])):
                    for dt in ("cc", "rr", "rc", "cr"):
                        if dt in ("rc", "cr") and st not in (None, [2]):
                            continue
                        add([m], [n], mode, st, dt=dt)
                    add([m], [n], mode, st, batch=[2])
                    if (m <= 3 and n <= 3) or (T and m <= 5 and n <= 5):
                        for ci, co in itertools.product((1, 2, 3) if T else (1, 2), repeat=2):
                            add([m], [n], mode, st, mc=[ci, co])
                            if st in (None, [2]):
                                add([m], [n], mode, st, batch=[2], mc=[ci, co])
    st2 = [None] + [list(s) for s in itertools.product((1, 2, 3), repeat=2)]
    if not T:
        st2 = [None, [1, 2], [2, 1], [2, 2], [3, 2], [1, 3], [3, 3]]
    L2 = (1, 2, 3, 4) if T else (1, 2, 3)
    for m in itertools.product(L2, repeat=2):
        for n in itertools.product(L2, repeat=2):
            for mode in ("full", "valid"):
                for st in st2:
                    add(m, n, mode, st)
                    if st is None:
                        add(m, n, mode, st, dt="rr")
    for m, n in (((3, 2), (2, 2)), ((3, 3), (1, 2)), ((2, 2), (3, 3)), ((2, 3), (2, 3))):
        for mode in ("full", "valid"):
            for ci, co in itertools.product((1, 2), repeat=2):
                for st in (None, [2, 1]):
                    add(m, n, mode, st, mc=[ci, co])
                add(m, n, mode, None, batch=[2], mc=[ci, co])
            add(m, n, mode, None, batch=[2])
    st3 = [None] + [list(s) for s in itertools.product((1, 2), repeat=3)]
    if not T:
        st3 = [None, [2, 1, 2], [1, 2, 1], [2, 2, 2], [1, 1, 2]]
    L3 = (1, 2, 3) if T else (1, 2)
    for m in itertools.product(L3, repeat=3):
        for n in itertools.product(L3, repeat=3):
            if T and max(m) == 3 and max(n) == 3 and (sum(m) + sum(n)) % 3:
                continue      # thinned: the 3x3x3-by-3x3x3 corner
            for mode in ("full", "valid"):
                for st in (st3 if max(m + n) <= 2 else [None, [2, 1, 2]]):
                    add(m, n, mode, st)
    if T:
        for m, n in (((3, 2, 2), (2, 2, 1)), ((2, 2, 2), (3, 2, 3))):
            for mode in ("full", "valid"):
                for st in (None, [2, 1, 1]):
                    add(m, n, mode, st)
                    add(m, n, mode, st, mc=[2, 2])
    return cases


def ref_geometry(m, n, mode, s):
    """Returns (admitted, out_len per axis, offset per axis) from the definition."""
    D = len(m)
    if mode == "full":
        full = [a + b - 1 for a, b in zip(m, n)]
        return True, [-(-f // st) for f, st in zip(full, s)], [0] * D
    ge = all(a >= b for a, b in zip(m, n))
    le = all(a <= b for a, b in zip(m, n))
    if not (ge or le):
        return False, None, None
    vlen = [abs(a - b) + 1 for a, b in zip(m, n)]
    off = [min(a, b) - 1 for a, b in zip(m, n)]
    return True, [-(-v // st) for v, st in zip(vlen, s)], off


def ref_conv(data, filt, m, n, mode, s, B, ci, co):
    """data: (B, ci)+m, filt: (co, ci)+n  ->  (B, co)+p by the definition."""
    adm, p, off = ref_geometry(m, n, mode, s)
    D = len(m)
    out = np.zeros([B, co] + p, dtype=complex)
    for pos in itertools.product(*[range(k) for k in p]):
        q = [off[d] + s[d] * pos[d] for d in range(D)]  # index into the full convolution
        for t in itertools.product(*[range(k) for k in n]):
            src = [q[d] - t[d] for d in range(D)]
            if all(0 <= src[d] < m[d] for d in range(D)):
                for b in range(B):
                    for o in range(co):
                        for i in range(ci):
                            out[(b, o) + pos] += data[(b, i) + tuple(src)] * filt[(o, i) + t]
    return out


def run_case(case, seed):
    import sigpy as sp
    m, n, mode = case["m"], case["n"], case["mode"]
    D = len(m)
    st = case["strides"]
    s = [1] * D if st is None else list(st)
    batch = case["batch"]
    B = dense.prod(batch)
    mc = case["mc"]
    ci, co = (mc if mc else (1, 1))
    dshape = batch + ([ci] if mc else []) + m
    fshape = ([co, ci] if mc else []) + n
    dt = case["dtype"]
    ddt = np.complex128 if dt[0] == "c" else np.float64
    fdt = np.complex128 if dt[1] == "c" else np.float64
    admitted, p, off = ref_geometry(m, n, mode, s)
    longer = mode == "valid" and any(b > a for a, b in zip(m, n))
    when = "%s mode, %s" % (mode, ("not admitted (mixed)" if not admitted else
                                   ("filter longer than data" if longer else "data >= filter")))
    if st is not None and any(v > 1 for v in s):
        when += ", strided"
    if dt != "cc":
        when += ", dtypes " + dt
    viol = []
    kw = dict(mode=mode, strides=st, multi_channel=bool(mc))
    oshape = (batch + ([co] if mc else []) + p) if admitted else None
    trans = 0
    P, Q = dense.prod(dshape), dense.prod(fshape)

    def V(oracle, site, detail):
        viol.append(dict(oracle=oracle, key=dict(site=site, when=when), detail=detail,
                         python="sigpy.convolve(data%s, filt%s, mode=%r, strides=%r, multi_channel=%r)" % (dshape, fshape, mode, st, bool(mc))))

    # ---- forward on all basis pairs
    rejected = False
    T = None
    for pi in range(P):
        if rejected or viol:
            break
        for qi in range(Q):
            d = dense.basis(P, pi, dshape, ddt)
            f = dense.basis(Q, qi, fshape, fdt)
            try:
                y = sp.convolve(d, f, **kw)
                trans += 1
            except Exception:
                rejected = True
                break
            if not admitted:
                V("accepted-not-admitted", "conv.convolve", "valid mode with mixed larger/smaller axes returned an array of shape %s" % (list(y.shape),))
                break
            if list(y.shape) != oshape:
                V("output-shape", "conv.convolve", "returned shape %s, definition gives %s" % (list(y.shape), oshape))
                break
            ref = ref_conv(d.reshape([B, ci] + m), f.reshape([co, ci] + n), m, n, mode, s, B, ci, co).reshape(oshape)
            if not np.abs(y - ref).max() <= TOL:
                V("definition", "conv.convolve", "basis pair (data e%d, filter e%d): got %s, definition %s" % (
                    pi, qi, np.array2string(np.asarray(y).ravel()[:8], precision=3), np.array2string(ref.ravel()[:8], precision=3)))
                break
    outcome = "rejected" if rejected else "computed"
    dd = (dense.dense_vec(P, 1) * (1 + 0.5j)).reshape(dshape)
    ff = (dense.dense_vec(Q, 2) * (0.5 - 1j)).reshape(fshape)
    if ddt == np.float64:
        dd = np.real(dd)
    if fdt == np.float64:
        ff = np.real(ff)
    dd, ff = dd.astype(ddt), ff.astype(fdt)
    if admitted and not rejected and not viol:
        # dense complex arguments (i-multiples: no conjugation in the forward map)
        try:
            y = sp.convolve(dd, ff, **kw)
            ref = ref_conv(dd.reshape([B, ci] + m), ff.reshape([co, ci] + n), m, n, mode, s, B, ci, co).reshape(oshape)
            if list(y.shape) != oshape or not np.abs(y - ref).max() <= TOL * max(1, np.abs(ref).max()):
                V("definition", "conv.convolve", "dense arguments: result differs from the definition (imaginary part dropped or conjugated?)")
            # structured values: shortcuts that are exact for generic arguments and wrong for special ones (taps or samples
            # that sum to zero, alternate in sign, are all equal, purely imaginary, zero except one)
            def structured(n_, dt_):
                k_ = np.arange(n_)
                out_ = [("zero-sum pair", np.where(k_ == 0, 1.0, 0) - np.where(k_ == n_ - 1, 1.0, 0)),
                        ("alternating", (-1.0) ** k_), ("constant", np.ones(n_)),
                        ("zero-mean", k_ - (n_ - 1) / 2.0), ("all zero", np.zeros(n_))]
                if dt_ is np.complex128:
                    out_ += [("purely imaginary", 1j * (k_ + 1.0)), ("complex zero-sum", (1 + 2j) * ((-1.0) ** k_) * (k_ < 2 * (n_ // 2)))]
                return out_
            for which in ("filter", "data"):
                for label, vec in structured(Q if which == "filter" else P, fdt if which == "filter" else ddt):
                    f2 = vec.reshape(fshape).astype(fdt) if which == "filter" else ff
                    d2 = vec.reshape(dshape).astype(ddt) if which == "data" else dd
                    y2 = sp.convolve(d2, f2, **kw)
                    trans += 1
                    ref2 = ref_conv(d2.reshape([B, ci] + m), f2.reshape([co, ci] + n), m, n, mode, s, B, ci, co).reshape(oshape)
                    if list(y2.shape) != oshape or not np.abs(y2 - ref2).max() <= TOL * max(1, np.abs(ref2).max()):
                        V("definition", "conv.convolve", "%s = %s values: result differs from the definition" % (which, label))
                        break
            # bilinear => homogeneous in each argument at any scale (no absolute thresholds on "small" taps or samples)
            for sd, sf in ((1e-9, 1.0), (1.0, 1e-9), (1e9, 1e-9), (1e-12, 1e-12)):
                ys = sp.convolve((sd * dd).astype(ddt), (sf * ff).astype(fdt), **kw)
                trans += 1
                if list(ys.shape) != oshape or not np.abs(ys - sd * sf * ref).max() <= 1e-9 * sd * sf * max(1, np.abs(ref).max()):
                    V("definition", "conv.convolve", "data scaled by %g and filter by %g: result is not %g times the unit-scale result "
                      "(absolute threshold on small values?)" % (sd, sf, sd * sf))
                    break
        except Exception:
            outcome = "rejected-dense"  # e.g. real data x complex filter refused loudly
    # ---- adjoints (requested shapes; conjugate transposes)
    if admitted:
        O = dense.prod(oshape)
        # reference data-matrix for filter ff and filter-matrix for data dd
        Dm = np.zeros((O, P), complex)
        for pi in range(P):
            Dm[:, pi] = ref_conv(dense.basis(P, pi, [B, ci] + m), ff.reshape([co, ci] + n), m, n, mode, s, B, ci, co).ravel()
        Fm = np.zeros((O, Q), complex)
        for qi in range(Q):
            Fm[:, qi] = ref_conv(dd.reshape([B, ci] + m), dense.basis(Q, qi, [co, ci] + n), m, n, mode, s, B, ci, co).ravel()
        if O > 0:
            for name, fn, ref, shp in (
                    ("conv.convolve_data_adjoint", lambda y: sp.convolve_data_adjoint(y, ff, dshape, **kw), Dm.conj().T, dshape),
                    ("conv.convolve_filter_adjoint", lambda y: sp.convolve_filter_adjoint(y, dd, fshape, **kw), Fm.conj().T, fshape)):
                try:
                    MA = dense.dense_of(fn, oshape, shp)
                    trans += O
                except dense.ShapeError as e:
                    V("output-shape", name, str(e))
                    continue
                except Exception:
                    outcome += "/adj-rejected"
                    continue
                e = dense.relerr(MA, ref)
                if not e <= 1e-9:
                    V("exact-adjoint", name, "max|M(adjoint) - M^H|/max|M| = %.3g" % e)
                else:
                    # the matrix was extracted on real unit vectors: imaginary parts must go through as well
                    bad = dense.linearity_defects(fn, MA, oshape, 1e-9, pairs=False)
                    trans += O + 2
                    if bad:
                        V("exact-adjoint", name, "adjoint is not C-linear in its array argument on probe %s (err %.3g): imaginary part dropped or conjugated" % bad[0])
        # the Linops' own adjoints (A.H is a different code path than the adjoint functions above)
        if O > 0 and not viol:
            for lname, arg_shape, cap, refM in (("ConvolveData", dshape, ff, Dm.conj().T), ("ConvolveFilter", fshape, dd, Fm.conj().T)):
                try:
                    AH = getattr(sp.linop, lname)(arg_shape, cap, **kw).H
                except Exception:
                    continue
                if list(AH.ishape) != oshape or list(AH.oshape) != list(arg_shape):
                    V("output-shape", "linop.%s.H" % lname, "A.H maps %s->%s, expected %s->%s" % (list(AH.ishape), list(AH.oshape), oshape, list(arg_shape)))
                    continue
                try:
                    MAH = dense.dense_linop(AH)
                    trans += O
                except dense.ShapeError as e:
                    V("output-shape", "linop.%s.H" % lname, str(e))
                    continue
                except Exception:
                    continue
                e_ = dense.relerr(MAH, refM)
                if not e_ <= 1e-9:
                    V("exact-adjoint", "linop.%s.H" % lname, "max|M(A.H) - M^H|/max|M| = %.3g" % e_)
        # component-wise accuracy on data whose real and imaginary parts live on very different scales (1e9 vs 1), with a
        # real-valued operand stored in a complex dtype: each output component is a short sum of products, so its error is
        # bounded by a few ulps of the sum of the ABSOLUTE products that enter THAT component (Higham's bound); a rewrite
        # that mixes the components (3-multiplication tricks, FFT-based products) is exact "in norm" and loses the small one
        if O > 0 and not viol and dt == "cc":
            fr = np.real(ff).astype(np.complex128)
            Dr = np.zeros((O, P), complex)
            for pi in range(P):
                Dr[:, pi] = ref_conv(dense.basis(P, pi, [B, ci] + m), fr.reshape([co, ci] + n), m, n, mode, s, B, ci, co).ravel()
            dv = dense.dense_vec(P, 6)
            dmix = (1e9 * np.real(dv) + 1j * np.imag(dv)).astype(np.complex128)
            ymix = (np.real(dense.dense_vec(O, 7)) + 1e9j * np.imag(dense.dense_vec(O, 7))).astype(np.complex128)

            def cw(name, got, Mx, v):
                got = np.asarray(got).ravel()
                want = Mx @ v
                if got.shape != want.shape:
                    return
                Mr, Mi, vr, vi = np.abs(Mx.real), np.abs(Mx.imag), np.abs(v.real), np.abs(v.imag)
                g_ = 1e-13 * max(4, Mx.shape[1])
                bre = g_ * (Mr @ vr + Mi @ vi) + 1e-300
                bim = g_ * (Mr @ vi + Mi @ vr) + 1e-300
                worst = max(float(np.max(np.abs(got.real - want.real) / bre)), float(np.max(np.abs(got.imag - want.imag) / bim)))
                if not worst <= 1.0:
                    V("componentwise-accuracy", name, "data with real parts ~1e9 and imaginary parts ~1 (or vice versa) and a real-valued "
                      "complex-dtype operand: a component is off by %.3g times its rounding-error bound" % worst)
            try:
                cw("conv.convolve", sp.convolve(dmix.reshape(dshape), fr.reshape(fshape), **kw), Dr, dmix)
                AL = sp.linop.ConvolveData(dshape, fr.reshape(fshape), **kw)
                cw("linop.ConvolveData", AL(dmix.reshape(dshape)), Dr, dmix)
                cw("linop.ConvolveData.H", AL.H(ymix.reshape(oshape)), Dr.conj().T, ymix)
                cw("conv.convolve_data_adjoint", sp.convolve_data_adjoint(ymix.reshape(oshape), fr.reshape(fshape), dshape, **kw), Dr.conj().T, ymix)
                trans += 4
            except Exception:
                pass
        # mixed dtypes: the array handed to an adjoint and the array it is the adjoint FOR may differ in dtype (single-precision
        # complex k-space with a double or integer-valued kernel, ...); the result is the exact adjoint in the common type
        if O > 0 and not viol and dt == "cc":
            fi = np.round(3 * np.real(ff) + 0.25).astype(np.int64)       # integer-valued filter, e.g. [1, -2, 1]
            di = np.round(3 * np.real(dd) - 0.25).astype(np.int64)
            Dmi = np.zeros((O, P), complex)
            for pi in range(P):
                Dmi[:, pi] = ref_conv(dense.basis(P, pi, [B, ci] + m), fi.reshape([co, ci] + n).astype(complex), m, n, mode, s, B, ci, co).ravel()
            Fmi = np.zeros((O, Q), complex)
            for qi in range(Q):
                Fmi[:, qi] = ref_conv(di.reshape([B, ci] + m).astype(complex), dense.basis(Q, qi, [co, ci] + n), m, n, mode, s, B, ci, co).ravel()
            yv = (dense.dense_vec(O, 4) * (1 + 0.75j))
            for ydt, odt in ((np.complex64, np.float64), (np.complex64, np.int64), (np.float32, np.int64), (np.float64, np.complex64), (np.complex128, np.float32)):
                yy = (yv if np.issubdtype(ydt, np.complexfloating) else np.real(yv)).astype(ydt).reshape(oshape)
                rt = 2e-5 if np.dtype(ydt).itemsize <= 8 and ydt is not np.float64 or odt in (np.complex64, np.float32) else 1e-9
                for name, call, refM in (("conv.convolve_data_adjoint", lambda: sp.convolve_data_adjoint(yy, fi.astype(odt), dshape, **kw), Dmi.conj().T),
                                         ("conv.convolve_filter_adjoint", lambda: sp.convolve_filter_adjoint(yy, di.astype(odt), fshape, **kw), Fmi.conj().T)):
                    try:
                        got = np.asarray(call())
                        trans += 1
                    except Exception:
                        continue      # a refusal of a dtype combination is loud
                    want = refM @ yy.ravel().astype(complex)
                    err = float(np.abs(got.ravel() - want).max()) / max(1.0, float(np.abs(want).max()))
                    if not err <= rt:
                        V("exact-adjoint", name, "output dtype %s with %s of dtype %s: result (dtype %s) differs from the exact adjoint by %.3g "
                          "(imaginary part or fraction dropped?)" % (np.dtype(ydt).name, "filter" if "data" in name else "data", np.dtype(odt).name, got.dtype, err))
                        break
    else:
        # no operator exists for this combination, so nothing can be its adjoint: the adjoint functions must refuse too
        # (probed with the output shape |m-n|+1 per axis that a per-axis valid rule would give, subsampled by the strides)
        pn = [-(-(abs(a - b) + 1) // st_) for a, b, st_ in zip(m, n, s)]
        on = batch + ([co] if mc else []) + pn
        yy = (dense.dense_vec(dense.prod(on), 3) * (1 - 0.25j)).reshape(on)
        for name, fn in (("conv.convolve_data_adjoint", lambda: sp.convolve_data_adjoint(yy, ff, dshape, **kw)),
                         ("conv.convolve_filter_adjoint", lambda: sp.convolve_filter_adjoint(yy, dd, fshape, **kw))):
            try:
                r_ = fn()
                trans += 1
            except Exception:
                continue
            V("accepted-not-admitted", name, "valid mode with mixed larger/smaller axes: the forward convolution does not exist, "
              "but the adjoint returned an array of shape %s" % (list(np.asarray(r_).shape),))
    # ---- Linops must refuse what the functions refuse, and agree otherwise
    for lname, arg_shape, cap in (("ConvolveData", dshape, ff), ("ConvolveFilter", fshape, dd)):
        try:
            A = getattr(sp.linop, lname)(arg_shape, cap, **kw)
        except Exception:
            continue
        if not admitted:
            V("accepted-not-admitted", "linop." + lname, "operator %s->%s was built for a shape combination the mode does not admit" % (
                list(A.ishape), list(A.oshape)))
            continue
        try:
            x = dd if lname == "ConvolveData" else ff
            y = A(x.astype(np.complex128))
            trans += 1
        except Exception:
            continue
        # the operand the Linop is APPLIED to in its own (possibly real) dtype while the captured one is complex, and vice
        # versa: the result is the convolution of the two arrays as they are, whatever their dtypes
        if admitted and not viol:
            xr_ = np.real(x).astype(np.float64)
            capc = (cap.astype(np.complex128) * (1 + 0.5j)) if not np.iscomplexobj(cap) else cap
            try:
                Ac = getattr(sp.linop, lname)(arg_shape, capc, **kw)
                yr_ = np.asarray(Ac(xr_))
                d_, f_ = (xr_, capc) if lname == "ConvolveData" else (capc, xr_)
                refr = ref_conv(d_.reshape([B, ci] + m).astype(complex), f_.reshape([co, ci] + n).astype(complex), m, n, mode, s, B, ci, co).reshape(oshape)
                if list(yr_.shape) != oshape or not np.abs(yr_ - refr).max() <= 2e-5 * max(1, np.abs(refr).max()):
                    V("definition", "linop." + lname, "real-dtype input with a complex captured operand: result (dtype %s) differs from the "
                      "definition by %.3g (imaginary part of the captured array dropped?)" % (yr_.dtype, float(np.abs(yr_ - refr).max()) if list(yr_.shape) == oshape else float("inf")))
            except Exception:
                pass      # refusing the dtype combination is loud
        if not admitted:
            V("accepted-not-admitted", "linop." + lname, "operator built and applied for a shape combination the mode does not admit")
            continue
        ref = ref_conv(dd.reshape([B, ci] + m).astype(complex), ff.reshape([co, ci] + n).astype(complex), m, n, mode, s, B, ci, co).reshape(oshape)
        if list(np.asarray(y).shape) != oshape or list(A.oshape) != oshape:
            V("output-shape", "linop." + lname, "Linop output shape %s / oshape %s, definition %s" % (list(np.asarray(y).shape), list(A.oshape), oshape))
        elif not np.abs(y - ref).max() <= TOL * max(1, np.abs(ref).max()):
            V("definition", "linop." + lname, "Linop result differs from the definition")
    nontrivial = admitted and (dense.prod(p) >= 2 or Q >= 2)
    return dict(states=1, transitions=max(trans, 1), nontrivial=bool(nontrivial),
                outcome=outcome if not viol else "violation:" + viol[0]["oracle"], viol=viol)
