"""C09 — resize/shift/resample/block functions move exactly the documented elements.

Alphabet: shapes, output shapes, shifts, axes, factors, block sizes/strides.
Bound: full product of the small domains listed in bounds().
Oracle: explicit index maps (vf.ref.indexmaps) on labelled inputs for the
gather functions; the dense 0/1 matrix (basis probing) of the accumulating
functions must equal the transpose of the gather matrix.
"""
import itertools

import numpy as np

from vf import dense, space
from vf.ref import indexmaps as im

PID = "C09"
LEVEL = "model_checking"
RULE = ("full product of small parameter domains per function (see bounds); one case = one "
        "configuration; every case compares the function AND the corresponding Linop with the "
        "reference index map on a labelled complex input (gather) or on the full canonical basis "
        "(accumulate). non-trivial = the reference result differs from the input laid out flat "
        "(something is moved, dropped or zero-filled)")
ASSUMPTIONS = ["CPU/NumPy backend only", "elements are moved, so values are compared exactly (==)"]
CHUNK = 40


def bounds(tier):
    return {
        "resize": "1-D n<=6,m<=7; 2-D n in 1..4, m in 1..5; 3-D n in %s, m in 1..4; explicit shifts: all valid pairs 1-D (n,m<=5), 2-D sample; ndim-changing oshape" % (
            "{1,2,3}" if tier == "thorough" else "{2,3}"),
        "flip/circshift": "shapes <=3 dims, <=24 elems; every axes subset incl. negative, None; shifts {-2,-1,0,1,5}",
        "down/upsample": "shapes 1-2 dims lengths 1..7; factors {1,2,3,4}; every shift in [0,min(f,n))",
        "blocks": "D=1: N 1..7; D=2: N in %s; D=3: N in %s; B,S in {1,2,3} (D=3: B in {1,2}, S in %s); batch (), (2,)" % (
            "{2..5}" if tier == "thorough" else "{3,4,5}",
            "{2,3,4}" if tier == "thorough" else "{3,4}",
            "{1,2,3}" if tier == "thorough" else "{1,2}"),
    }


def gen_cases(tier, seed):
    T = tier == "thorough"
    cases = []
    # ---- resize
    for n in range(1, 7):
        for m in range(1, 8):
            cases.append(dict(kind="resize", ishape=[n], oshape=[m], ishift=None, oshift=None))
    for ish in itertools.product(range(1, 5), repeat=2):
        for osh in itertools.product(range(1, 6), repeat=2):
            cases.append(dict(kind="resize", ishape=list(ish), oshape=list(osh), ishift=None, oshift=None))
    L3 = (1, 2, 3) if T else (2, 3)
    for ish in itertools.product(L3, repeat=3):
        for osh in itertools.product(range(1, 5), repeat=3):
            cases.append(dict(kind="resize", ishape=list(ish), oshape=list(osh), ishift=None, oshift=None))
    for n in range(1, 6):
        for m in range(1, 6):
            for si in range(n):
                for so in range(m):
                    cases.append(dict(kind="resize", ishape=[n], oshape=[m], ishift=[si], oshift=[so]))
    # only one of the two shifts given: the other one keeps its centring default
    for n in range(1, 6):
        for m in range(1, 7):
            for si in range(n):
                cases.append(dict(kind="resize", ishape=[n], oshape=[m], ishift=[si], oshift=None))
            for so in range(m):
                cases.append(dict(kind="resize", ishape=[n], oshape=[m], ishift=None, oshift=[so]))
    for osh in ([3, 4], [2, 5], [4, 3], [3, 5]):
        for si in itertools.product((0, 1), repeat=2):
            for so in itertools.product((0, 1), repeat=2):
                cases.append(dict(kind="resize", ishape=[3, 4], oshape=osh, ishift=list(si), oshift=list(so)))
    for ish, osh in (([3], [1, 5]), ([2, 3], [6]), ([2, 3], [1, 2, 3]), ([1, 4], [4]), ([4], [1, 1, 2])):
        cases.append(dict(kind="resize", ishape=ish, oshape=osh, ishift=None, oshift=None))
    # ---- flip / circshift
    shp = space.shapes((1, 2, 3), (1, 2, 3, 4, 5), 24)
    for s in shp:
        for ax in space.axes_subsets(len(s), nonempty=False):   # including the empty selection: nothing is reversed
            cases.append(dict(kind="flip", shape=list(s), axes=None if ax is None else list(ax)))
    sh_alpha = (-2, -1, 0, 1, 5)
    for s in space.shapes((1, 2, 3), (1, 2, 3, 4), 24 if T else 16):
        nd = len(s)
        for ax in space.axes_subsets(nd, ordered=True, nonempty=False):
            k = nd if ax is None else len(ax)
            if k == 3 and not T:
                shifts_iter = [(1, -2, 5), (0, 1, -1), (5, 0, -2)]
            else:
                shifts_iter = itertools.product(sh_alpha, repeat=k)
            for sh in shifts_iter:
                cases.append(dict(kind="circshift", shape=list(s), axes=None if ax is None else list(ax),
                                  shifts=list(sh)))
    # ---- downsample / upsample
    for s in space.shapes((1, 2), (1, 2, 3, 4, 5, 6, 7), 49 if T else 30):
        nd = len(s)
        for f in itertools.product((1, 2, 3, 4), repeat=nd):
            # every start offset inside the axis, also >= the factor ("every f-th element from the shift")
            shifts = [None] + [list(t) for t in itertools.product(*[range(ni) for ni in s])]
            for sft in shifts:
                cases.append(dict(kind="resample", shape=list(s), factors=list(f), shift=sft))
    # ---- blocks
    def blk(D, Ns, Bs, Ss):
        for N in itertools.product(Ns, repeat=D):
            for B in itertools.product(Bs, repeat=D):
                for S in itertools.product(Ss, repeat=D):
                    # a block longer than its axis: no window fits, the documented count (N - B + S) // S is 0 as long
                    # as B <= N + S (beyond that the formula goes negative and the call is outside the documentation)
                    if any(b > n + s_ for b, n, s_ in zip(B, N, S)):
                        continue
                    for batch in ([], [2]):
                        cases.append(dict(kind="blocks", N=list(N), B=list(B), S=list(S), batch=batch))
    blk(1, range(1, 8), (1, 2, 3, 4, 5), (1, 2, 3))
    blk(2, (2, 3, 4, 5) if T else (2, 3, 4, 5), (1, 2, 3), (1, 2, 3))
    blk(3, (2, 3, 4) if T else (3, 4), (1, 2), (1, 2, 3) if T else (1, 2))
    return cases


def labelled(shape, dtype=np.complex128, layout="C"):
    n = dense.prod(shape)
    v = np.arange(1, n + 1, dtype=np.float64)
    if np.issubdtype(dtype, np.complexfloating):
        v = v + 1j * (0.5 * v + 0.25)
    a = v.astype(dtype).reshape(shape)
    if layout == "F":
        a = np.asfortranarray(a)
    elif layout == "S":
        big = np.zeros([2 * k for k in shape], dtype=dtype)
        sl = tuple(slice(1, None, 2) for _ in shape)
        big[sl] = a
        a = big[sl]
    return a


def layouts(viol, site, when, fn, shape, ref, gather=True):
    """The same values in Fortran order and as a strided view must be moved to the same places."""
    for lay in ("F", "S"):
        x = labelled(shape, np.complex128, lay)
        x0 = x.copy()
        got = np.asarray(fn(x))
        if list(got.shape) != list(ref.shape) or not np.array_equal(got, ref):
            viol.append(dict(oracle="layout-invariance", key=dict(site=site, when=when),
                             detail="%s input: result differs from the C-contiguous result" % ("Fortran-ordered" if lay == "F" else "strided")))
        if not np.array_equal(x, x0):
            viol.append(dict(oracle="input-mutated", key=dict(site=site, when=when), detail="%s-layout input modified" % lay))
    # the same for element types other than complex128: these functions only move elements, so integers, booleans and
    # single-precision values must land in the same places, unchanged
    for dt_ in ((np.int64, np.int16, np.bool_, np.float32) if gather else ()):
        xi = labelled(shape, np.float64)
        xi = (xi % 2 == 1) if dt_ is np.bool_ else xi.astype(dt_)
        want = apply_src_like(ref, xi)
        try:
            got = np.asarray(fn(xi))
        except Exception:
            continue     # a refusal is loud
        if list(got.shape) != list(want.shape) or not np.array_equal(got.astype(np.float64), want.astype(np.float64)):
            viol.append(dict(oracle="index-map", key=dict(site=site, when=when + ", %s elements" % np.dtype(dt_).name),
                             detail="%s input: elements are not moved as for complex input (got %s, expected %s)" % (
                                 np.dtype(dt_).name, np.array2string(got.ravel()[:10]), np.array2string(want.ravel()[:10]))))


def apply_src_like(ref, xi):
    """ref was produced by a GATHER map from labelled(shape) (element k carries the label k+1 in its real part, 0 = padding):
    move xi's elements the same way."""
    lab = np.real(ref)
    out = np.zeros(ref.shape, dtype=xi.dtype)
    flat = xi.ravel()
    idx = np.rint(lab).astype(np.int64) - 1
    ok = (lab > 0) & (idx < flat.size) & (np.abs(lab - np.rint(lab)) < 1e-9)
    out[ok] = flat[idx[ok]]
    return out


def _cmp(viol, site, when, got, ref, detail=""):
    got = np.asarray(got)
    if list(got.shape) != list(ref.shape):
        viol.append(dict(oracle="shape", key=dict(site=site, when=when),
                         detail="shape %s, reference %s %s" % (list(got.shape), list(ref.shape), detail)))
        return False
    if not np.array_equal(got, ref):
        viol.append(dict(oracle="index-map", key=dict(site=site, when=when),
                         detail="got %s, reference %s %s" % (
                             np.array2string(got.ravel()[:12], precision=3),
                             np.array2string(ref.ravel()[:12], precision=3), detail)))
        return False
    return True


def run_case(case, seed):
    import sigpy as sp
    k = case["kind"]
    viol = []
    trans = 0
    nontrivial = True
    if k == "resize":
        ish, osh = case["ishape"], case["oshape"]
        si, so = case["ishift"], case["oshift"]
        src = im.resize_src(ish, osh, si, so)
        when = "default shifts" if (si is None and so is None) else ("explicit shifts, oshape == ishape" if ish == osh else "explicit shifts")
        if (si is None) != (so is None):
            when = "only one of ishift/oshift given"
        if len(ish) != len(osh):
            when = "ndim-changing oshape"
        for dt in (np.complex128, np.float64):
            x = labelled(ish, dt)
            x0 = x.copy()
            ref = im.apply_src(src, x)
            got = sp.resize(x, osh, ishift=si, oshift=so)
            trans += 1
            _cmp(viol, "util.resize", when, got, ref)
            if not np.array_equal(x, x0):
                viol.append(dict(oracle="input-mutated", key=dict(site="util.resize", when=when), detail=""))
        layouts(viol, "util.resize", when, lambda a: sp.resize(a, osh, ishift=si, oshift=so), ish, im.apply_src(src, labelled(ish)))
        trans += 2
        if len(ish) == len(osh):
            A = sp.linop.Resize(osh, ish, ishift=si, oshift=so)
            x = labelled(ish)
            _cmp(viol, "linop.Resize", when, A(x), im.apply_src(src, x))
            # accumulate direction: A.H must be the transpose of the gather matrix
            G = im.gather_matrix(src, dense.prod(ish))
            MH = dense.dense_linop(A.H)
            trans += 1 + MH.shape[1]
            if MH.shape != G.T.shape or not np.array_equal(MH, G.T.astype(complex)):
                viol.append(dict(oracle="transpose", key=dict(site="linop.Resize.H", when=when),
                                 detail="adjoint is not the transpose of the gather map"))
        nontrivial = not (ish == osh and si is None and so is None)
    elif k == "flip":
        s, ax = case["shape"], case["axes"]
        src = im.flip_src(s, ax)
        when = "axes=None" if ax is None else ("empty axes" if not ax else ("negative axes" if any(a < 0 for a in ax) else "non-negative axes"))
        x = labelled(s)
        ref = im.apply_src(src, x)
        _cmp(viol, "util.flip", when, sp.flip(x, ax), ref)
        layouts(viol, "util.flip", when, lambda a: sp.flip(a, ax), s, ref)
        A = sp.linop.Flip(s, axes=ax)
        _cmp(viol, "linop.Flip", when, A(x), ref)
        _cmp(viol, "linop.Flip.H", when, A.H(ref), x)
        trans += 3
        nontrivial = not np.array_equal(ref, x)
    elif k == "circshift":
        s, ax, sh = case["shape"], case["axes"], case["shifts"]
        src = im.circshift_src(s, sh, ax)
        when = "axes=None" if ax is None else ("empty axes" if not ax else ("negative axes" if any(a < 0 for a in ax) else "non-negative axes"))
        x = labelled(s)
        ref = im.apply_src(src, x)
        _cmp(viol, "util.circshift", when, sp.circshift(x, sh, ax), ref)
        layouts(viol, "util.circshift", when, lambda a: sp.circshift(a, sh, ax), s, ref)
        A = sp.linop.Circshift(s, sh, axes=ax)
        _cmp(viol, "linop.Circshift", when, A(x), ref)
        _cmp(viol, "linop.Circshift.H", when, A.H(ref), x)
        trans += 3
        nontrivial = not np.array_equal(ref, x)
    elif k == "resample":
        s, f, sft = case["shape"], case["factors"], case["shift"]
        src = im.downsample_src(s, f, sft)
        when = "shift=None" if sft is None else "explicit shift"
        x = labelled(s)
        ref = im.apply_src(src, x)
        _cmp(viol, "util.downsample", when, sp.downsample(x, f, shift=sft), ref)
        layouts(viol, "util.downsample", when, lambda a: sp.downsample(a, f, shift=sft), s, ref)
        trans += 3
        if ref.size > 0:
            A = sp.linop.Downsample(s, f, shift=sft)
            if list(A.oshape) != list(ref.shape):
                viol.append(dict(oracle="shape", key=dict(site="linop.Downsample", when=when),
                                 detail="oshape %s reference %s" % (A.oshape, list(ref.shape))))
            else:
                _cmp(viol, "linop.Downsample", when, A(x), ref)
            # upsample: scatter back into zeros == transpose of the gather matrix
            G = im.gather_matrix(src, dense.prod(s))
            MU = dense.dense_of(lambda y: sp.upsample(y, s, f, shift=sft), list(ref.shape), s)
            trans += 1 + MU.shape[1]
            if not np.array_equal(MU, G.T.astype(complex)):
                viol.append(dict(oracle="transpose", key=dict(site="util.upsample", when=when),
                                 detail="upsample is not the scatter transpose of downsample"))
            U = sp.linop.Upsample(s, f, shift=sft)
            y = labelled(list(ref.shape))
            if list(U.ishape) != list(ref.shape):
                viol.append(dict(oracle="shape", key=dict(site="linop.Upsample", when=when),
                                 detail="ishape %s reference %s" % (U.ishape, list(ref.shape))))
            else:
                _cmp(viol, "linop.Upsample", when, U(y), (G.T @ y.ravel()).reshape(s))
                trans += 1
        nontrivial = any(fi > 1 for fi in f) or (sft is not None and any(sft))
    elif k == "blocks":
        N, B, S, batch = case["N"], case["B"], case["S"], case["batch"]
        ish = batch + N
        src = im.array_to_blocks_src(ish, B, S)
        nb = im.blocks_shape(N, B, S)
        tiling = all(b == s and (n - b) % s == 0 for n, b, s in zip(N, B, S))
        overl = any(s < b for b, s in zip(B, S))
        when = "tiling" if tiling else ("overlapping" if overl else "gapped or non-dividing")
        x = labelled(ish)
        x0 = x.copy()
        ref = im.apply_src(src, x)
        got = sp.array_to_blocks(x, B, S)
        _cmp(viol, "block.array_to_blocks", when, got, ref)
        layouts(viol, "block.array_to_blocks", when, lambda a: sp.array_to_blocks(a, B, S), ish, ref)
        yl = labelled(list(ref.shape))
        layouts(viol, "block.blocks_to_array", when, lambda a: sp.blocks_to_array(a, ish, B, S), list(ref.shape),
                (im.gather_matrix(src, dense.prod(ish)).T @ yl.ravel()).reshape(ish), gather=False)
        if not np.array_equal(x, x0):
            viol.append(dict(oracle="input-mutated", key=dict(site="block.array_to_blocks", when=when), detail=""))
        if ref.size == 0:
            # no window fits: the functions return an empty block array / zeros (checked above); an operator with an empty
            # side cannot be built ("Shapes must be positive"), a loud refusal
            return dict(states=1, transitions=trans + 2, nontrivial=False, outcome="ok:no-block-fits", viol=viol)
        A = sp.linop.ArrayToBlocks(ish, B, S)
        if list(A.oshape) != list(ref.shape):
            viol.append(dict(oracle="shape", key=dict(site="linop.ArrayToBlocks", when=when),
                             detail="oshape %s reference %s" % (A.oshape, list(ref.shape))))
        else:
            _cmp(viol, "linop.ArrayToBlocks", when, A(x), ref)
        G = im.gather_matrix(src, dense.prod(ish))
        MB = dense.dense_of(lambda y: sp.blocks_to_array(y, ish, B, S), list(ref.shape), ish)
        trans += 2 + MB.shape[1]
        if not np.array_equal(MB, G.T.astype(complex)):
            viol.append(dict(oracle="transpose", key=dict(site="block.blocks_to_array", when=when),
                             detail="blocks_to_array is not the accumulating transpose of array_to_blocks "
                                    "(max diff %g)" % np.abs(MB - G.T).max()))
        Bk = sp.linop.BlocksToArray(ish, B, S)
        y = labelled(list(ref.shape))
        _cmp(viol, "linop.BlocksToArray", when, Bk(y), (G.T @ y.ravel()).reshape(ish))
        trans += 1
        nontrivial = True
    else:
        raise ValueError(k)
    return dict(states=1, transitions=trans, nontrivial=bool(nontrivial),
                outcome="ok" if not viol else "violation:" + viol[0]["oracle"], viol=viol)

ENGINE = "E1"
TECHNIQUE = "bounded-exhaustive enumeration of configurations on the real code vs explicit index-map reference model (basis probing for accumulating maps)"
LEVEL_TEXT = ("Every configuration in the stated finite product is executed on the implementation and compared "
              "element-for-element with a reference index map written from the documentation; gather maps are decided "
              "by one labelled input, accumulating maps by their full 0/1 matrix, so within the bounds the verdict "
              "holds for all element values.")
LEVEL_NOTE = "Bounded: shapes <= 3 block dims and small lengths (small-scope hypothesis); CPU backend; NumPy indexing trusted."
