"""Fork pool with a parent-side watchdog.

Library calls can fail to terminate and Numba nopython loops ignore Python
signals, so every case runs in a worker process that the parent can kill.  A
case whose worker stays silent longer than ``case_timeout`` is reported as
``no-return``; the worker is replaced and the rest of its chunk is requeued.
Results are returned indexed by case number, so the output is independent of
scheduling.
"""
import multiprocessing as mp
import os
import signal
import time
import traceback
from multiprocessing.connection import wait


def _worker(conn, run, cases):
    # run(idx, case) -> result dict
    while True:
        try:
            msg = conn.recv()
        except EOFError:
            return
        if msg is None:
            return
        for idx in msg:
            conn.send(("start", idx))
            try:
                res = run(idx, cases[idx])
            except BaseException as e:  # harness error inside worker
                res = {"harness_error": "".join(
                    traceback.format_exception(type(e), e, e.__traceback__))}
            conn.send(("res", idx, res))
        conn.send(("chunk_done",))


class _W:
    __slots__ = ("proc", "conn", "chunk", "pos", "inflight", "t0")


def run_pool(run, cases, nproc, case_timeout, deadline=None, chunk=None,
             progress=None):
    """Run ``run(idx, case)`` for every case.  Returns (results, capped).

    results[idx] is the result dict, or {"no_return": True, "secs": ...} /
    {"crash": True} when the worker had to be killed / died.
    capped is True when ``deadline`` fired before everything was explored.
    """
    n = len(cases)
    results = [None] * n
    if n == 0:
        return results, False
    nproc = max(1, min(nproc, n))
    if chunk is None:
        chunk = max(1, min(32, n // (nproc * 6) or 1))
    pending = [list(range(i, min(i + chunk, n))) for i in range(0, n, chunk)]
    pending.reverse()  # pop from the end == ascending order
    ctx = mp.get_context("fork")
    workers = []

    def spawn():
        pc, cc = ctx.Pipe()
        p = ctx.Process(target=_worker, args=(cc, run, cases), daemon=True)
        p.start()
        cc.close()
        w = _W()
        w.proc, w.conn, w.chunk, w.pos, w.inflight, w.t0 = p, pc, None, 0, None, time.time()
        return w

    def assign(w):
        if pending:
            w.chunk = pending.pop()
            w.pos = 0
            w.inflight = None
            w.t0 = time.time()
            w.conn.send(w.chunk)
            return True
        w.chunk = None
        return False

    for _ in range(nproc):
        w = spawn()
        workers.append(w)
        assign(w)

    capped = False
    done = 0
    while any(w.chunk is not None for w in workers):
        if deadline is not None and time.time() > deadline:
            capped = True
            break
        busy = [w for w in workers if w.chunk is not None]
        ready = wait([w.conn for w in busy], timeout=0.5)
        now = time.time()
        for w in busy:
            if w.conn in ready:
                try:
                    while w.conn.poll():
                        msg = w.conn.recv()
                        w.t0 = now
                        if msg[0] == "start":
                            w.inflight = msg[1]
                        elif msg[0] == "res":
                            results[msg[1]] = msg[2]
                            w.inflight = None
                            w.pos += 1
                            done += 1
                            if progress:
                                progress(done, n)
                        elif msg[0] == "chunk_done":
                            assign(w)
                            break
                except (EOFError, ConnectionResetError, OSError):
                    # worker died (segfault / os-level kill)
                    bad = w.inflight if w.inflight is not None else (
                        w.chunk[w.pos] if w.chunk and w.pos < len(w.chunk) else None)
                    if bad is not None:
                        results[bad] = {"crash": True}
                        done += 1
                        rest = [i for i in w.chunk[w.pos + 1:]]
                    else:
                        rest = []
                    try:
                        w.proc.kill()
                    except Exception:
                        pass
                    w.proc.join()
                    nw = spawn()
                    workers[workers.index(w)] = nw
                    if rest:
                        pending.append(rest)
                    assign(nw)
            elif now - w.t0 > case_timeout and w.chunk is not None:
                bad = w.inflight if w.inflight is not None else w.chunk[w.pos]
                results[bad] = {"no_return": True, "secs": round(now - w.t0, 1)}
                done += 1
                rest = w.chunk[w.pos + 1:]
                try:
                    os.kill(w.proc.pid, signal.SIGKILL)
                except Exception:
                    pass
                w.proc.join()
                nw = spawn()
                workers[workers.index(w)] = nw
                if rest:
                    pending.append(rest)
                assign(nw)
    for w in workers:
        try:
            if capped:
                os.kill(w.proc.pid, signal.SIGKILL)
            else:
                w.conn.send(None)
        except Exception:
            pass
    for w in workers:
        w.proc.join(timeout=5)
        if w.proc.is_alive():
            w.proc.kill()
    return results, capped
