"""Run one call history of C02 part B in THIS (fresh) process and print a digest
of the last call's result.  Usage: python -m vf.prochist <name>:<variant> [...]
Process-global state (lazily compiled ufunc loops, module-level caches) can make
a result depend on what was called before; the parent compares the digest of
the last call with the one obtained when it is the only call."""
import hashlib
import sys

import numpy as np


def digest(o):
    h = hashlib.sha1()

    def walk(x):
        if isinstance(x, (list, tuple)):
            h.update(b"[")
            for y in x:
                walk(y)
            h.update(b"]")
        elif x is None:
            h.update(b"None")
        else:
            a = np.asarray(x)
            h.update(str(a.dtype).encode())
            h.update(str(a.shape).encode())
            h.update(np.ascontiguousarray(a).tobytes())
    walk(o)
    return h.hexdigest()[:16]


def main():
    from checks import c02
    last = None
    for tok in sys.argv[1:]:
        name, v = tok.rsplit(":", 1)
        np.random.seed(0)
        if name.startswith("prox."):
            P = c02.PROXES[name[5:]]()
            dt = c02._DT[int(v)]
            x = c02._arr(P.shape, dt, 8)
            try:
                out = P(0.5, x)
                last = "%s %s" % (np.asarray(out).dtype, digest(out))
            except Exception as e:
                last = "raised " + type(e).__name__
        else:
            fn, args, mutable = c02.FUNCS[name][1](int(v))
            try:
                out = fn(*args)
                res = out if not mutable else args[mutable[0]]
                last = "%s %s" % (getattr(np.asarray(res if not isinstance(res, (list, tuple)) else res[0]), "dtype", "?"), digest(res))
            except Exception as e:
                last = "raised " + type(e).__name__
    print("PROCHIST " + str(last))


if __name__ == "__main__":
    main()
