"""C07 — interpolate/gridding implement the documented kernel sums.

Alphabet: grid shapes (1-3 dims incl. length-1 axes) x batch shapes x coordinate
sets (dyadic tie lattice, negatives, far outside, duplicates, seeded random) x
kernels (spline 0/1/2, kaiser_bessel beta) x widths (scalar and per-axis,
integer and fractional) x real/complex data x coordinate dtype.
Oracle: reference weight matrix built in pure Python from the docstring:
  W[j, i mod n] += prod_d K_d((i_d - c_jd)/(W_d/2))  over integer i with |i_d - c_jd| <= W_d/2.
M(interpolate) == W and M(gridding) == W^T; because W is assembled with +=,
coincident and wrapped contributions must add.
"""
import itertools

import numpy as np
from scipy.special import i0

from vf import dense

PID = "C07"
LEVEL = "model_checking"
ENGINE = "E1"
TECHNIQUE = ("bounded-exhaustive enumeration of (grid, coordinates, kernel, width, dtype) configurations on the real code; "
             "dense matrices by basis probing vs a pure-Python kernel-sum reference model and its transpose")
LEVEL_TEXT = ("Every configuration is applied to the whole canonical basis; the resulting matrix must equal the reference "
              "weight matrix written from the docstring (and its transpose for gridding), deciding the result for all data "
              "values; coordinates are dyadic so every ceil/floor tie is exact.")
LEVEL_NOTE = ("Coordinates are a finite lattice (all ties, negatives, far-outside, duplicates) plus seeded random points; "
              "Kaiser-Bessel compared at 1e-6 (the library's polynomial I0 is accurate to ~2e-7), splines at 1e-12.")
RULE = ("full product of grids x coordinate sets x kernels x widths x dtypes listed in bounds; non-trivial = reference "
        "matrix has a row with >= 2 non-zero weights or a wrapped/duplicate contribution")
ASSUMPTIONS = ["scipy.special.i0 as the closed form of I0", "float32 coordinates compared at 1e-5 on tie-free points"]
CHUNK = 24
KERNELS = [("spline", 0), ("spline", 1), ("spline", 2), ("kaiser_bessel", 2.0), ("kaiser_bessel", 8.0), ("kaiser_bessel", 13.9)]
WIDTHS = [2, 1, 1.5, 2.5, 3, 4]


def bounds(tier):
    return {"grids": GR_T if tier == "thorough" else GR_Q, "kernels": KERNELS, "widths": WIDTHS + ([3.5, 5, 6, 0.5] if tier == "thorough" else []),
            "per-axis widths": "2-D: [2.5,1], [1,2.5]; 3-D: orderings of (1.5, 3, 2) (3 quick / all 6 thorough)", "coordinate sets": ["lattice (step 1/4 from -2.5 to N+2.5, 1-D; product of coarse lattice in 2-D/3-D)", "far", "dup", "random", "random-f32"],
            "batch": [[], [2], [2, 1]]}


GR_Q = [[4], [1], [5], [3, 4], [1, 3], [2, 2, 3], [1, 3, 4]]
GR_T = [[4], [1], [2], [3], [5], [7], [8], [12], [3, 4], [1, 3], [2, 2], [4, 5], [6, 6], [5, 1], [2, 2, 3], [3, 1, 2], [3, 3, 3], [2, 3, 2], [4, 2, 3], [1, 3, 4], [2, 3, 1]]


def gen_cases(tier, seed):
    T = tier == "thorough"
    cases = []
    widths = WIDTHS + ([3.5, 5, 6, 0.5] if T else [])      # thorough: wider than every axis, and narrower than one cell
    for grid in (GR_T if T else GR_Q):
        nd = len(grid)
        for cs in ("lattice", "far", "huge", "dup", "random", "random-f32"):
            for kn, prm in KERNELS:
                ws = list(widths)
                if nd == 2:
                    ws += [[2.5, 1], [1, 2.5]]
                if nd == 3:
                    # every ordering of three different widths: a kernel that mixes up two axes' widths is only visible
                    # when the wrongly used width is the smaller one
                    ws += [[1.5, 3, 2], [3, 1.5, 2], [2, 3, 1.5]] + ([[1.5, 2, 3], [3, 2, 1.5], [2, 1.5, 3]] if T else [])
                for w in ws:
                    if not T and nd == 3 and cs in ("far", "dup") and w not in (2, 2.5):
                        continue
                    for batch in ([], [2], [2, 1]):
                        if batch and (cs not in ("lattice", "random") or w not in (2, 1.5)):
                            continue
                        if batch == [2, 1] and not T and kn != "spline":
                            continue
                        for real in (False, True):
                            if real and (batch or cs in ("far", "huge", "random-f32")):
                                continue
                            cases.append(dict(kind="interp", grid=grid, batch=batch, cset=cs, kernel=kn, param=prm,
                                              width=w, real=real))
                        if nd > 1 and not batch and cs in ("lattice", "random") and isinstance(w, list):
                            # per-axis kernel parameters that differ between the axes (both orderings)
                            pl = ([0, 2, 1] if kn == "spline" else [2.0, 8.0, 4.0])[:nd]
                            for pp in (pl, pl[::-1]):
                                cases.append(dict(kind="interp", grid=grid, batch=batch, cset=cs, kernel=kn, param=pp, width=w, real=False))
    return cases


def warmup():
    import sigpy as sp
    for nd in (1, 2, 3):
        for kern, prm in (("spline", 1), ("kaiser_bessel", 2.0)):
            for dt in (np.complex128, np.float64):
                for cdt in (np.float64, np.float32):
                    x = np.zeros([3] * nd, dtype=dt)
                    c = np.zeros((2, nd), dtype=cdt)
                    sp.interpolate(x, c, kernel=kern, width=2, param=prm)
                    sp.gridding(np.zeros(2, dtype=dt), c, [3] * nd, kernel=kern, width=2, param=prm)


def coord_set(name, grid, seed):
    nd = len(grid)
    if name == "lattice":
        if nd == 1:
            n = grid[0]
            return np.arange(-2.5, n + 2.5 + 1e-9, 0.25).reshape(-1, 1)
        axes = []
        for n in grid:
            axes.append([-1.5, -0.25, 0.0, 0.5, n - 1.0, n - 0.5, n + 0.75] if nd == 2 else [-0.5, 0.0, 0.75, n - 0.5, n + 1.0])
        pts = list(itertools.product(*axes))
        step = 1 if nd == 2 else 3
        return np.array(pts[::step], dtype=np.float64)
    if name == "far":
        rows = []
        for j in range(5):
            rows.append([[-3.0 * n - 0.5, 4.0 * n + 0.25, -n - 1.0, 2.0 * n, 7.5 * n][(j + d) % 5] for d, n in enumerate(grid)])
        return np.array(rows, dtype=np.float64)
    if name == "huge":
        rows = []
        for j in range(5):
            rows.append([[1.0e6 + 0.37, -2.0e6 - 0.61, 3.0e5 + 0.13, -7.0e5 + 0.45, 1.5e6 + 0.9][(j + 2 * d) % 5] for d, n in enumerate(grid)])
        return np.array(rows, dtype=np.float64)
    if name == "dup":
        p = [0.75 + 0.5 * d for d in range(nd)]
        q = [n - 0.25 for n in grid]
        return np.array([p, p, q, p, q, q], dtype=np.float64)
    r = np.random.default_rng(1000 + seed * 7 + nd)
    c = np.stack([r.uniform(-1.0, n + 1.0, size=7) for n in grid], axis=-1)
    if name == "random-f32":
        return c.astype(np.float32)
    return c


def kern_val(kn, prm, x):
    ax = abs(x)
    if ax > 1:
        return 0.0
    if kn == "spline":
        if prm == 0:
            return 1.0
        if prm == 1:
            return 1.0 - ax
        if ax > 1.0 / 3.0:
            return 9.0 / 8.0 * (1.0 - ax) ** 2
        return 3.0 / 4.0 * (1.0 - 3.0 * x * x)
    return float(i0(prm * np.sqrt(max(0.0, 1.0 - x * x))))


def ref_weights(grid, coord, kn, prm, width):
    nd = len(grid)
    w = [float(width)] * nd if np.isscalar(width) else [float(v) for v in width]
    prms = [prm] * nd if np.isscalar(prm) else list(prm)
    N = dense.prod(grid)
    W = np.zeros((coord.shape[0], N))
    strides = [dense.prod(grid[d + 1:]) for d in range(nd)]
    for j in range(coord.shape[0]):
        per_axis = []
        for d in range(nd):
            c = float(coord[j, d])
            h = w[d] / 2.0
            lo = int(np.ceil(c - h))
            hi = int(np.floor(c + h))
            per_axis.append([(i % grid[d], kern_val(kn, prms[d], (i - c) / h)) for i in range(lo, hi + 1)])
        for combo in itertools.product(*per_axis):
            flat = sum(ix * st for (ix, _), st in zip(combo, strides))
            val = 1.0
            for _, kv in combo:
                val *= kv
            W[j, flat] += val
    return W


def run_case(case, seed):
    import sigpy as sp
    grid, batch = case["grid"], case["batch"]
    kn, prm, width = case["kernel"], case["param"], case["width"]
    wid = tuple(width) if isinstance(width, list) else width
    prm_arg = tuple(prm) if isinstance(prm, list) else prm
    coord = coord_set(case["cset"], grid, seed)
    f32 = coord.dtype == np.float32
    dt = np.float64 if case["real"] else np.complex128
    when = "%s, %s coordinates" % (kn, "float32" if f32 else case["cset"])
    viol = []
    W1 = ref_weights(grid, coord.astype(np.float64), kn, prm, width)
    B = dense.prod(batch)
    W = np.kron(np.eye(B), W1) if B > 1 else W1
    tol = 1e-12 if kn == "spline" else 1e-6
    if f32:
        tol = 1e-5
    ish = batch + grid
    npts = coord.shape[0]
    osh = batch + [npts]
    c0 = coord.copy()
    M = dense.dense_of(lambda x: sp.interpolate(x.astype(dt) if not case["real"] else np.real(x).astype(dt), coord,
                                                kernel=kn, width=wid, param=prm_arg), ish, osh)
    G = dense.dense_of(lambda y: sp.gridding(y.astype(dt) if not case["real"] else np.real(y).astype(dt), coord, ish,
                                             kernel=kn, width=wid, param=prm_arg), osh, ish)
    trans = M.shape[1] + G.shape[1]
    e1 = dense.relerr(M, W.astype(complex))
    if not e1 <= tol:
        viol.append(dict(oracle="kernel-sum", key=dict(site="interp.interpolate", when=when),
                         detail="max|M - W_ref|/max|W_ref| = %.3g (grid %s width %s param %s)" % (e1, grid, width, prm)))
    e2 = dense.relerr(G, W.T.astype(complex))
    if not e2 <= tol:
        viol.append(dict(oracle="kernel-sum-transpose", key=dict(site="interp.gridding", when=when),
                         detail="max|M(gridding) - W_ref^T|/max|W_ref| = %.3g (grid %s width %s param %s)" % (e2, grid, width, prm)))
    if coord.tobytes() != c0.tobytes():
        viol.append(dict(oracle="input-mutated", key=dict(site="interp", when="coord"), detail="coordinates modified"))
    if not case["real"] and not viol:
        # complex homogeneity + Linop wrappers agree with the functions
        x = (dense.dense_vec(M.shape[1], 3) * (1 + 1j)).reshape(ish)
        A = sp.linop.Interpolate(ish, coord, kernel=kn, width=wid, param=prm_arg)
        y = A(x)
        trans += 2
        ref = (W @ x.ravel()).reshape(osh)
        if list(y.shape) != osh or not np.abs(y - ref).max() <= tol * max(1.0, np.abs(ref).max()) * 10:
            viol.append(dict(oracle="linop-vs-reference", key=dict(site="linop.Interpolate", when=when), detail="Linop result differs from W_ref x"))
        if not f32:
            y32 = np.asarray(A(x.astype(np.complex64)))
            trans += 1
            if not np.abs(y32 - ref).max() <= 2e-5 * max(1.0, np.abs(ref).max()):
                viol.append(dict(oracle="linop-vs-reference", key=dict(site="linop.Interpolate", when=when + ", complex64 data"),
                                 detail="complex64 data with float64 coordinates: Linop result differs from W_ref x by %.3g" % np.abs(y32 - ref).max()))
        Gd = sp.linop.Gridding(ish, coord, kernel=kn, width=wid, param=prm_arg)
        z = Gd(y)
        ref2 = (W.T @ ref.ravel()).reshape(ish)
        if list(z.shape) != ish or not np.abs(z - ref2).max() <= tol * max(1.0, np.abs(ref2).max()) * 10:
            viol.append(dict(oracle="linop-vs-reference", key=dict(site="linop.Gridding", when=when), detail="Linop result differs from W_ref^T y"))
    nz = (np.abs(W1) > 0).sum(axis=1)
    nontrivial = bool((nz >= 2).any())
    return dict(states=1, transitions=trans, nontrivial=nontrivial,
                outcome="ok" if not viol else "violation:" + viol[0]["oracle"], viol=viol)
