#!/bin/bash
# tools/seed_sweep.sh "<seeds>" [tier] [checks...]: runs checks for several VERIF_SEED values; evidence goes to a scratch dir
SEEDS="${1:-1 2 7 12345}"; TIER="${2:-quick}"; shift 2 2>/dev/null
CHECKS="${@:-C01 C02 C03 C04 C05 C06 C07 C08 C09 C10 C11 C12 C13 C14 C15 C16 C17 C18 C19 C20}"
OUT="$(mktemp -d /tmp/sweep.XXXXXX)"
for s in $SEEDS; do for c in $CHECKS; do
  o="$(cd /verif && VERIF_OUT="$OUT" VERIF_SEED=$s ./check $c $TIER 2>&1)"; rc=$?
  echo "seed=$s $c rc=$rc $(echo "$o" | tail -1 | cut -c1-160)"
  [ $rc -ne 0 ] && echo "$o" | grep -A1 '^VIOLATION\|HARNESS' | head -6
done; done
rm -rf "$OUT"
