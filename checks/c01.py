"""C01 — every linear operator's adjoint is its true adjoint.

Alphabet: every leaf configuration of vf.opcat.leaf_specs (Appendix A) and every
well-typed expression tree (vf.programs) with <= k internal nodes.
Oracle: M(A.H) == M(A)^H by basis probing (decides <Ax,y> = <x,A^H y> for ALL
complex x, y because both sides are linear - which is itself probed), shapes
swapped, M(A.H.H) == M(A).
"""
import numpy as np

from vf import dense, opcat, programs

PID = "C01"
LEVEL = "model_checking"
ENGINE = "E1+E3"
TECHNIQUE = ("bounded-exhaustive enumeration of operator configurations and expression trees on the real code; "
             "dense matrices by basis probing; finite matrix identity M(A.H) = M(A)^H")
LEVEL_TEXT = ("Every leaf configuration in the stated alphabets and every well-typed expression tree up to the node bound "
              "is built with the real constructors; A, A.H and A.H.H are applied to the whole canonical basis and the "
              "finite identity M(A.H)=M(A)^H, together with a linearity probe of both operators, decides the adjoint "
              "identity for all complex inputs of that configuration.")
LEVEL_NOTE = ("Bounded shapes (<= 24/40 elements) and trees (<= 2/3 internal nodes); ToDevice/AllReduce need GPU/MPI and are "
              "not reachable here; tolerance 1e-9 relative to max|M|.")
RULE = ("one case = one operator configuration or expression tree; leaves: Appendix-A alphabets (full product per class, "
        "thinned only where stated in opcat.leaf_specs); trees: every well-typed tree over programs.LEAVES with <= k "
        "internal nodes and every stacking axis in [-ndim, ndim) and None. non-trivial = M(A) is neither zero nor the identity")
ASSUMPTIONS = ["CPU/NumPy backend", "captured arrays drawn from default_rng keyed by (VERIF_SEED, spec)",
               "tolerance 1e-9 relative to max|M(A)|"]
TOL = 1e-9
CHUNK = 24


def bounds(tier):
    return {"leaf alphabets": "vf/opcat.py leaf_specs('%s')" % tier,
            "n-ary": "3- and 4-operand Add/Compose/Hstack/Vstack/Diag over 5 leaves (quick) / 3-operand over 11 leaves (thorough)", "tree nodes": "1 over 11 leaves (all axes), 2 over 5 leaves (non-negative axes)" if tier == "quick" else "<= 2 over 11 leaves (all axes), 3 over 3 leaves",
            "deviation": "full product within each class alphabet"}


def gen_cases(tier, seed):
    cases = [dict(kind="leaf", spec=s) for s in opcat.leaf_specs(tier)]
    for t in programs.trees(programs.LEAVES, 1):
        cases.append(dict(kind="tree", spec=t))
    for t in programs.nary_trees(programs.SUB5 if tier == "quick" else programs.LEAVES, (3, 4) if tier == "quick" else (3,)):
        cases.append(dict(kind="tree", spec=t))
    if tier == "quick":
        for t in programs.trees(programs.SUB5, 2, all_axes=False, scalars=programs.SCALARS[:2]):
            cases.append(dict(kind="tree", spec=t))
    else:
        for t in programs.trees(programs.LEAVES, 2):
            cases.append(dict(kind="tree", spec=t))
        for t in programs.trees(programs.SUB3, 3, all_axes=False, scalars=programs.SCALARS[:1]):
            cases.append(dict(kind="tree", spec=t))
    return cases


def warmup():
    import sigpy as sp
    for nd in (1, 2, 3):
        for kern, prm in (("spline", 1), ("kaiser_bessel", 2.0)):
            x = np.zeros([3] * nd, dtype=np.complex128)
            c = np.zeros((2, nd))
            sp.interpolate(x, c, kernel=kern, width=2, param=prm)
            sp.gridding(np.zeros(2, dtype=np.complex128), c, [3] * nd, kernel=kern, width=2, param=prm)


def classify(spec):
    neg = False
    for k in ("axes", "axis", "iaxis", "oaxis"):
        v = spec.get(k)
        if isinstance(v, int) and v < 0:
            neg = True
        if isinstance(v, list) and any(isinstance(a, int) and a < 0 for a in v):
            neg = True
    w = "negative axis" if neg else "non-negative/None axis"
    if spec["op"] == "Diag":
        if (spec.get("iaxis") is None) != (spec.get("oaxis") is None):
            w += ", exactly one of iaxis/oaxis None"
    return w


def exc_key(case, root):
    spec = case["spec"]
    return dict(site=spec["op"], when=classify(spec) + ", raised " + type(root).__name__)


def run_case(case, seed):
    spec = programs.strip(case["spec"])
    site = spec["op"]
    when = classify(spec)
    viol = []

    def V(oracle, detail, extra=""):
        viol.append(dict(oracle=oracle, key=dict(site=site, when=when + extra), detail=detail,
                         python="vf.opcat.build(%r)" % (spec,)))

    A = opcat.build(spec, seed)
    ish, osh = list(A.ishape), list(A.oshape)
    AH = A.H
    trans = 0
    if list(AH.ishape) != osh or list(AH.oshape) != ish:
        V("adjoint-shapes", "A: %s->%s but A.H: %s->%s" % (ish, osh, list(AH.ishape), list(AH.oshape)))
        return dict(states=1, transitions=1, nontrivial=True, outcome="violation:adjoint-shapes", viol=viol)
    try:
        M = dense.dense_linop(A)
        MH = dense.dense_linop(AH)
        trans += M.shape[1] + MH.shape[1]
    except dense.ShapeError as e:
        V("output-shape", str(e))
        return dict(states=1, transitions=1, nontrivial=True, outcome="violation:output-shape", viol=viol)
    e1 = dense.relerr(MH, M.conj().T)
    if not e1 <= TOL:
        V("adjoint-matrix", "max|M(A.H) - M(A)^H| / max|M| = %.3g" % e1)
    AHH = AH.H
    if list(AHH.ishape) != ish or list(AHH.oshape) != osh:
        V("adjoint-adjoint-shapes", "A.H.H: %s->%s" % (list(AHH.ishape), list(AHH.oshape)))
    else:
        try:
            MHH = dense.dense_linop(AHH)
            trans += MHH.shape[1]
            e2 = dense.relerr(MHH, M)
            if not e2 <= TOL:
                V("adjoint-adjoint", "max|M(A.H.H) - M(A)| / max|M| = %.3g" % e2)
        except dense.ShapeError as e:
            V("output-shape", "A.H.H: " + str(e))
    badA = dense.linearity_defects(lambda x: A(x), M, ish, TOL)
    badH = dense.linearity_defects(lambda y: AH(y), MH, osh, TOL)
    trans += 2 * (M.shape[1] + MH.shape[1]) + 4
    if badA:
        V("linearity", "A is not C-linear on probe %s (err %.3g)" % badA[0])
    if badH:
        V("linearity", "A.H is not C-linear on probe %s (err %.3g)" % badH[0])
    n = M.shape[0]
    trivial = (not M.any()) or (M.shape[0] == M.shape[1] and np.allclose(M, np.eye(n)))
    return dict(states=3, transitions=trans, nontrivial=not trivial,
                outcome="ok" if not viol else "violation:" + viol[0]["oracle"], viol=viol)
