"""E1: small finite parameter alphabets, ordered simplest-first."""
import itertools


def prod(shape):
    p = 1
    for s in shape:
        p *= int(s)
    return p


def shapes(ndims, lengths, max_elems, min_elems=1):
    """All tuples over ``lengths`` with ndim in ``ndims`` and at most max_elems
    elements, ordered by (ndim, size, lexicographic)."""
    out = []
    for nd in ndims:
        for t in itertools.product(lengths, repeat=nd):
            if min_elems <= prod(t) <= max_elems:
                out.append(tuple(t))
    out.sort(key=lambda t: (len(t), prod(t), t))
    return out


def axes_subsets(ndim, negative=True, include_none=True, nonempty=True, ordered=False):
    """Every subset of range(-ndim, ndim) without duplicates modulo ndim."""
    out = []
    if include_none:
        out.append(None)
    rng = list(range(ndim)) + (list(range(-ndim, 0)) if negative else [])
    seen = set()
    for r in range(1 if nonempty else 0, ndim + 1):
        it = itertools.permutations(rng, r) if ordered else itertools.combinations(rng, r)
        for c in it:
            if len({a % ndim for a in c}) != len(c):
                continue
            if c in seen:
                continue
            seen.add(c)
            out.append(tuple(c))
    return out


def deviations(domains, bound):
    """Every assignment within ``bound`` deviations from the defaults.
    ``domains``: dict name -> list (element 0 is the default).  Yields dicts in
    order of increasing deviation count."""
    names = list(domains)
    for d in range(0, min(bound, len(names)) + 1):
        for which in itertools.combinations(range(len(names)), d):
            pools = []
            for i, nm in enumerate(names):
                pools.append(domains[nm][1:] if i in which else domains[nm][:1])
            for combo in itertools.product(*pools):
                yield dict(zip(names, combo)), d
