"""C18 — Poisson-disc masks are binary, reproducible, calibrated and hit the acceleration.

Alphabet: image shapes (square and rectangular, 16..64, thorough 96/128) x accel x calib x
tol x seeds x crop_corner x dtype.  Histories (E2) over
  {numpy.random.seed(a), numpy.random.rand(), poisson(cfg1), poisson(cfg2)}
all words up to a depth: ANY prior state of NumPy's global RNG.
Invariants: mask values in {0,1}; |size/sum(mask) - accel| < tol or a ValueError was
raised; the calibration block is fully sampled; with crop_corner no sample at r >= 1;
poisson(cfg) returns the identical mask in every history state; the digest of
numpy.random.get_state() is unchanged by every poisson transition; TERMINATION: the harness
wraps samp._poisson from outside and counts mask generations per call - a bisection of
[0, max(nx, ny)] over doubles needs at most ~1080 halvings (when the bracket shrinks towards 0
through the subnormal range), so more than 1200 generations is reported as "neither returns
nor raises" without waiting for a wall-clock timeout.
"""
import hashlib
import itertools

import numpy as np

from vf import history

PID = "C18"
LEVEL = "exploration"
ENGINE = "E1+E2"
TECHNIQUE = ("bounded-exhaustive enumeration of mask configurations and of call histories around NumPy's global RNG on the "
             "real function; invariants in every state; explicit step horizon on the inner bisection for termination")
LEVEL_TEXT = ("Every configuration of the finite product and every call history up to the depth bound is executed; mask "
              "invariants, reproducibility across histories and RNG-state preservation are evaluated in every state; the "
              "configuration space is continuous (accel, tol), so the verdict is bounded-exhaustive over the listed grid only.")
LEVEL_NOTE = "Termination is decided by a generation-count horizon (1200 mask generations per call), not by wall-clock time."
RULE = ("product of shapes x accel x calib x tol x seeds x crop_corner (+dtype on a sub-family); histories: every word over 4 events "
        "up to depth 3/4; non-trivial = a mask was returned with 0 < samples < size")
ASSUMPTIONS = ["mask generations counted by replacing sigpy.mri.samp._poisson with a counting wrapper from the harness (not a source hook)"]
CHUNK = 8
HORIZON = 1200


class NoReturn(Exception):
    pass


def bounds(tier):
    return {"shapes": SH_T if tier == "thorough" else SH_Q, "accel": ACC, "calib": CAL, "tol": [0.1, 0.01],
            "seeds": ([0, 1] if tier == "quick" else [0, 1, 2, 3]) + ["None (16 configurations)"], "crop_corner": [True, False],
            "history depth": 3 if tier == "quick" else 4, "generation horizon": HORIZON}


SH_Q = [[16, 16], [20, 20], [32, 32], [64, 64], [16, 32], [32, 20]]
SH_T = SH_Q + [[48, 48], [64, 16], [48, 64], [96, 96], [128, 128], [128, 64]]
ACC = [1.5, 2, 3, 4, 6, 8, 12]
CAL = [[0, 0], [4, 4], [8, 6], [5, 7], [4, 12]]


def gen_cases(tier, seed):
    T = tier == "thorough"
    cases = []
    for sh in (SH_T if T else SH_Q):
        for acc in ACC:
            for cal in CAL:
                for tol in (0.1, 0.01):
                    for sd in ((0, 1, 2, 3) if T else (0, 1)):
                        for crop in (True, False):
                            if not T and tol == 0.01 and (sd == 1 or max(sh) > 32):
                                continue
                            if not T and max(sh) > 32 and (acc == 1.5 or sd == 1):
                                continue   # quick: the slow (up to ~1080 generations) corner only on small shapes
                            cases.append(dict(kind="mask", shape=sh, accel=acc, calib=cal, tol=tol, seed=sd, crop=crop, dtype="complex128"))
    for dt in ("float32", "float64", "complex64", "bool", "int32"):
        for sh in ([16, 16], [32, 20]):
            cases.append(dict(kind="mask", shape=sh, accel=3, calib=[4, 4], tol=0.1, seed=0, crop=True, dtype=dt))
    # seed=None (documented: no seeding): the mask is not reproducible, but every other clause holds, in particular the
    # global NumPy random state stays untouched
    for sh in ([16, 16], [32, 20]):
        for acc in (2, 4):
            for cal in ([0, 0], [4, 4]):
                for crop in (True, False):
                    cases.append(dict(kind="mask", shape=sh, accel=acc, calib=cal, tol=0.1, seed=None, crop=crop, dtype="complex128"))
    cfgs = [dict(shape=[16, 16], accel=2, calib=[4, 4], tol=0.1, seed=0, crop=True),
            dict(shape=[20, 16], accel=4, calib=[0, 0], tol=0.1, seed=3, crop=False),
            dict(shape=[32, 32], accel=6, calib=[8, 6], tol=0.1, seed=1, crop=True)]
    for a, b in ((0, 1), (1, 2), (0, 2)):
        cases.append(dict(kind="hist", cfg1=cfgs[a], cfg2=cfgs[b], depth=4 if T else 3))
    # same geometry, different seeds (state keyed on the geometry only would leak between seeds)
    for base in (dict(shape=[32, 32], accel=4, calib=[4, 4], tol=0.1, crop=True), dict(shape=[64, 64], accel=6, calib=[0, 0], tol=0.1, crop=False)):
        for sa, sb in ((0, 5), (1, 2)):
            cases.append(dict(kind="hist", cfg1=dict(base, seed=sa), cfg2=dict(base, seed=sb), depth=4 if T else 3))
    return cases


def no_return_key(case):
    return dict(site="mri.samp.poisson", when="neither returns nor raises")


_installed = False
_count = [0]


def install_counter():
    """Replace samp._poisson by a counting wrapper (idempotent)."""
    global _installed
    import sigpy.mri.samp as samp
    if _installed:
        return
    inner = samp._poisson

    def counted(*a, **k):
        _count[0] += 1
        if _count[0] > HORIZON:
            raise NoReturn("more than %d mask generations in one poisson() call" % HORIZON)
        return inner(*a, **k)
    samp._poisson = counted
    _installed = True


def call_poisson(cfg, dtype=np.complex128):
    import sigpy.mri as mr
    install_counter()
    _count[0] = 0
    return mr.samp.poisson(cfg["shape"], cfg["accel"], calib=tuple(cfg["calib"]), dtype=dtype, crop_corner=cfg["crop"],
                           seed=cfg["seed"], tol=cfg["tol"])


def rng_digest():
    st = np.random.get_state()
    h = hashlib.sha1()
    h.update(str(st[0]).encode())
    h.update(np.asarray(st[1]).tobytes())
    h.update(repr(st[2:]).encode())
    return h.hexdigest()[:16]


def check_mask(cfg, mask, viol, V):
    ny, nx = cfg["shape"]
    m = np.asarray(mask)
    if list(m.shape) != [ny, nx]:
        V("mask-shape", "mask shape %s" % (list(m.shape),))
        return False
    vals = np.unique(m)
    if not all(v in (0, 1) for v in vals.tolist()):
        V("binary", "mask contains values other than 0 and 1: %s" % vals[:5])
        return False
    b = np.real(m) > 0
    n = int(b.sum())
    if n == 0:
        V("acceleration", "mask has no samples")
        return False
    acc = ny * nx / n
    if not abs(acc - cfg["accel"]) < cfg["tol"]:
        V("acceleration", "returned mask has acceleration %.4f, requested %s +/- %s" % (acc, cfg["accel"], cfg["tol"]))
    cy, cx = cfg["calib"]
    y0, y1 = int(np.ceil(ny / 2 - cy / 2)), int(np.floor(ny / 2 + cy / 2))
    x0, x1 = int(np.ceil(nx / 2 - cx / 2)), int(np.floor(nx / 2 + cx / 2))
    if y1 > y0 and x1 > x0 and not b[y0:y1, x0:x1].all():
        V("calibration-region", "calibration block [%d:%d, %d:%d] not fully sampled (%d missing)" % (y0, y1, x0, x1, int((~b[y0:y1, x0:x1]).sum())))
    elif cy > 0 and cx > 0 and cy <= ny and cx <= nx:
        # the calibration region has cy x cx points: for an odd extent on an even axis the centring is ambiguous by one
        # sample, but SOME centred placement of the full-size block must be fully sampled
        ys = {int(np.floor(ny / 2 - cy / 2)), int(np.ceil(ny / 2 - cy / 2))}
        xs = {int(np.floor(nx / 2 - cx / 2)), int(np.ceil(nx / 2 - cx / 2))}
        if not any(a >= 0 and c_ >= 0 and a + cy <= ny and c_ + cx <= nx and b[a:a + cy, c_:c_ + cx].all() for a in ys for c_ in xs):
            V("calibration-region", "no centred %dx%d block is fully sampled (calibration region smaller than requested)" % (cy, cx))
    if cfg["crop"]:
        yy, xx = np.mgrid[:ny, :nx]
        xr = np.maximum(np.abs(xx - nx / 2) - cx / 2, 0)
        xr = xr / xr.max()
        yr = np.maximum(np.abs(yy - ny / 2) - cy / 2, 0)
        yr = yr / yr.max()
        r = np.sqrt(xr ** 2 + yr ** 2)
        if (b & (r >= 1)).any():
            V("corner-crop", "%d sample(s) at normalised radius >= 1 with crop_corner=True" % int((b & (r >= 1)).sum()))
        if cx == 0 and cy == 0:
            ell = ((xx - nx / 2) / (nx / 2)) ** 2 + ((yy - ny / 2) / (ny / 2)) ** 2
            if (b & (ell >= 1)).any():
                V("corner-crop", "%d sample(s) outside the inscribed ellipse" % int((b & (ell >= 1)).sum()))
    return True


def run_case(case, seed):
    if case["kind"] == "hist":
        return run_hist(case, seed)
    viol = []
    cfg = case
    when = "tol=%s" % cfg["tol"]

    def V(oracle, detail):
        viol.append(dict(oracle=oracle, key=dict(site="mri.samp.poisson", when=when), detail=detail + " | " + str(case)))
    dt = np.dtype(case["dtype"])
    np.random.seed((seed * 7 + 3) % 2 ** 32)
    np.random.rand(3)
    d0 = rng_digest()
    outcome = "mask"
    try:
        mask = call_poisson(cfg, dt)
    except NoReturn as e:
        viol.append(dict(oracle="no-return", key=dict(site="mri.samp.poisson", when="neither returns nor raises"),
                         detail="poisson neither returned a mask nor raised: %s | %s" % (e, case)))
        return dict(states=1, transitions=HORIZON, nontrivial=True, outcome="violation:no-return", viol=viol)
    except ValueError:
        outcome = "ValueError"
        mask = None
    gens = _count[0]
    if rng_digest() != d0:
        V("rng-state", "numpy.random global state changed by poisson()")
    nontrivial = False
    if mask is not None:
        if mask.dtype != dt:
            V("dtype", "mask dtype %s, requested %s" % (mask.dtype, dt))
        ok = check_mask(cfg, mask, viol, V)
        nontrivial = ok and 0 < np.count_nonzero(mask) < mask.size
        if cfg["seed"] is None:
            return dict(states=1, transitions=1, nontrivial=bool(nontrivial),
                        outcome="mask (unseeded)" if not viol else "violation:" + viol[0]["oracle"], viol=viol)
        # reproducibility: same arguments and seed, different global RNG state
        np.random.seed(12345)
        mask2 = call_poisson(cfg, dt)
        if not np.array_equal(mask, mask2):
            V("reproducible", "second call with the same arguments and seed returned a different mask")
        # ... and with a call for ANOTHER seed of the same geometry in between ("depends only on the arguments and seed")
        if cfg["tol"] >= 0.1 and max(cfg["shape"]) <= 64:
            try:
                call_poisson(dict(cfg, seed=cfg["seed"] + 17), dt)
            except (ValueError, NoReturn):
                pass
            try:
                mask3 = call_poisson(cfg, dt)
                if not np.array_equal(mask, mask3):
                    V("reproducible", "same arguments and seed returned a different mask after an intervening call with another seed "
                      "(%d positions differ)" % int(np.sum(np.asarray(mask) != np.asarray(mask3))))
            except (ValueError, NoReturn):
                V("reproducible", "same arguments and seed raised after an intervening call with another seed")
    if cfg["seed"] is None:
        gens = 0     # (unseeded: the number of generations differs from run to run)
    return dict(states=2, transitions=gens + 1, nontrivial=bool(nontrivial),
                outcome=outcome if not viol else "violation:" + viol[0]["oracle"], viol=viol)


def run_hist(case, seed):
    viol = []
    seen_v = set()

    def V(oracle, detail):
        if oracle in seen_v:
            return
        seen_v.add(oracle)
        viol.append(dict(oracle=oracle, key=dict(site="mri.samp.poisson", when="call history"), detail=detail))
    cfgs = {"p1": case["cfg1"], "p2": case["cfg2"]}
    ref = {}
    for k, c in cfgs.items():
        np.random.seed(0)
        ref[k] = call_poisson(c)
        check_mask(c, ref[k], viol, lambda o, d: V(o, d + " | " + str(c)))
    alphabet = ("s1", "s2", "r", "p1", "p2")

    def run_history(word):
        v0 = len(viol)
        np.random.seed(424242)
        for i, ev in enumerate(word):
            if ev == "s1":
                np.random.seed(1)
            elif ev == "s2":
                np.random.seed(99)
            elif ev == "r":
                np.random.rand()
            else:
                d0 = rng_digest()
                try:
                    m = call_poisson(cfgs[ev])
                except NoReturn as e:
                    V("no-return", "history %s: %s" % ("-".join(word[:i + 1]), e))
                    continue
                if rng_digest() != d0:
                    V("rng-state", "history %s: numpy.random state changed by poisson()" % "-".join(word[:i + 1]))
                if not np.array_equal(m, ref[ev]):
                    V("reproducible", "history %s: mask differs from the mask of the same arguments in another history" % "-".join(word[:i + 1]))
        return rng_digest(), viol[v0:]
    res = history.explore(alphabet, run_history, lambda st: st, case["depth"], case["depth"])
    return dict(states=res["states"], transitions=res["transitions"], traces=res["histories"], nontrivial=True,
                outcome="ok" if not viol else "violation:" + viol[0]["oracle"], viol=viol)
