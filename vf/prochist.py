"""Run one call history of C02 part B in THIS (fresh) process and print a digest
of the last call's result.  Usage: python -m vf.prochist <name>:<variant> [...]
Process-global state (lazily compiled ufunc loops, module-level caches) can make
a result depend on what was called before; the parent compares the digest of
the last call with the one obtained when it is the only call."""
import hashlib
import sys

import numpy as np


def digest(o):
    h = hashlib.sha1()

    def walk(x):
        if isinstance(x, (list, tuple)):
            h.update(b"[")
            for y in x:
                walk(y)
            h.update(b"]")
        elif x is None:
            h.update(b"None")
        else:
            a = np.asarray(x)
            h.update(str(a.dtype).encode())
            h.update(str(a.shape).encode())
            h.update(np.ascontiguousarray(a).tobytes())
    walk(o)
    return h.hexdigest()[:16]


def describe(out):
    """dtype + digest of a result; rounded so that results are compared to ~1e-12 relative, not bitwise across BLAS paths."""
    def norm(x):
        if isinstance(x, (list, tuple)):
            return [norm(y) for y in x]
        a = np.asarray(x)
        if a.dtype.kind in "fc":
            scale = float(np.abs(a).max()) if a.size else 0.0
            if scale > 0:
                a = np.round(a / scale, 10) + 0.0
        return a
    first = out[0] if isinstance(out, (list, tuple)) and len(out) else out
    return "%s %s %s" % (np.asarray(first).dtype, np.asarray(first).shape, digest(norm(out)))


def main():
    from checks import c02
    last = None
    for tok in sys.argv[1:]:
        if tok.startswith("fam:"):
            _, fam, idx = tok.split(":")
            try:
                last = describe(c02.FAMILIES[fam][int(idx)]())
            except Exception as e:
                last = "raised " + type(e).__name__
            continue
        name, v = tok.rsplit(":", 1)
        np.random.seed(0)
        if name.startswith("prox."):
            P = c02.PROXES[name[5:]]()
            dt = c02._DT[int(v)]
            x = c02._arr(P.shape, dt, 8)
            try:
                out = P(0.5, x)
                last = "%s %s" % (np.asarray(out).dtype, digest(out))
            except Exception as e:
                last = "raised " + type(e).__name__
        else:
            fn, args, mutable = c02.FUNCS[name][1](int(v))
            try:
                out = fn(*args)
                res = out if not mutable else args[mutable[0]]
                last = "%s %s" % (getattr(np.asarray(res if not isinstance(res, (list, tuple)) else res[0]), "dtype", "?"), digest(res))
            except Exception as e:
                last = "raised " + type(e).__name__
    print("PROCHIST " + str(last))


if __name__ == "__main__":
    main()
