"""Reference solver for small composite least-squares problems with a
duality-gap certificate (no sigpy import).

    P(x) = 1/2 ||A x - y||^2 + g(G x) + lam/2 ||x - z||^2
    g in {none, l1(mu), l2sq(mu) = mu/2||.||^2, box(lo, hi)}

The solver is a plain NumPy ADMM with exact inner solves; whatever it returns
is only accepted together with a dual point whose objective proves
P(x) - P* <= gap (weak duality), so the oracle is sound independently of the
solver.
"""
import numpy as np


def g_val(kind, par, w, feas_tol=1e-9):
    if kind is None:
        return 0.0
    if kind == "l1":
        return par * float(np.abs(w).sum())
    if kind == "l2sq":
        return 0.5 * par * float(np.sum(np.abs(w) ** 2))
    if kind == "box":
        lo, hi = par
        wr = np.real(w)
        if np.any(wr < lo - feas_tol) or np.any(wr > hi + feas_tol) or np.abs(np.imag(w)).max(initial=0) > feas_tol:
            return float("inf")
        return 0.0
    raise ValueError(kind)


def g_prox(kind, par, t, w):
    if kind is None:
        return w
    if kind == "l1":
        a = np.abs(w)
        return np.where(a > t * par, (1 - t * par / np.maximum(a, 1e-300)) * w, 0)
    if kind == "l2sq":
        return w / (1 + t * par)
    if kind == "box":
        lo, hi = par
        return np.clip(np.real(w), lo, hi).astype(w.dtype)
    raise ValueError(kind)


def g_conj(kind, par, v):
    """g*(v); +inf when v is outside the domain."""
    if kind is None:
        return 0.0 if np.abs(v).max(initial=0) <= 1e-10 else float("inf")
    if kind == "l1":
        return 0.0 if np.abs(v).max(initial=0) <= par * (1 + 1e-12) else float("inf")
    if kind == "l2sq":
        return float(np.sum(np.abs(v) ** 2)) / (2 * par)
    if kind == "box":
        lo, hi = par
        vr = np.real(v)
        return float(np.sum(np.maximum(lo * vr, hi * vr)))
    raise ValueError(kind)


def primal(A, y, kind, par, G, lam, z, x, feas_tol=1e-9):
    Gx = x if G is None else G @ x
    zz = 0 if z is None else z
    return 0.5 * float(np.sum(np.abs(A @ x - y) ** 2)) + g_val(kind, par, Gx, feas_tol) + 0.5 * lam * float(np.sum(np.abs(x - zz) ** 2))


def dual_bound(A, y, kind, par, G, lam, z, w):
    """Lower bound on P* from a dual variable w for the g-block (Lagrangian
    L(x, w) = 1/2||Ax-y||^2 + lam/2||x-z||^2 + Re<w, Gx> - g*(w), minimised over x
    exactly)."""
    n = A.shape[1]
    Gm = np.eye(n) if G is None else G
    zz = np.zeros(n, dtype=complex) if z is None else z
    gs = g_conj(kind, par, w)
    if not np.isfinite(gs):
        return -float("inf")
    H = A.conj().T @ A + lam * np.eye(n)
    rhs = A.conj().T @ y + lam * zz - Gm.conj().T @ w
    try:
        x = np.linalg.solve(H, rhs)
    except np.linalg.LinAlgError:
        x = np.linalg.lstsq(H, rhs, rcond=None)[0]
    if np.linalg.norm(H @ x - rhs) > 1e-9 * max(1.0, np.linalg.norm(rhs)):
        return -float("inf")   # Lagrangian unbounded below in x
    val = 0.5 * float(np.sum(np.abs(A @ x - y) ** 2)) + 0.5 * lam * float(np.sum(np.abs(x - zz) ** 2)) \
        + float(np.real(np.vdot(w, Gm @ x))) - gs
    return val


def project_dual(kind, par, w):
    if kind == "l1":
        a = np.abs(w)
        return np.where(a > par, w * par / np.maximum(a, 1e-300), w)
    if kind is None:
        return np.zeros_like(w)
    if kind == "box":
        return np.real(w).astype(w.dtype)
    return w


def solve(A, y, kind=None, par=None, G=None, lam=0.0, z=None, iters=200000, gap_tol=1e-11):
    """Returns (x, w, P(x), lower bound, gap).  ADMM on  min f(x) + g(v), v = Gx."""
    A = np.asarray(A, dtype=complex)
    y = np.asarray(y, dtype=complex)
    n = A.shape[1]
    Gm = np.eye(n, dtype=complex) if G is None else np.asarray(G, dtype=complex)
    zz = np.zeros(n, dtype=complex) if z is None else np.asarray(z, dtype=complex)
    rho = 1.0
    H = A.conj().T @ A + lam * np.eye(n) + rho * Gm.conj().T @ Gm
    Hinv = np.linalg.pinv(H)
    base = A.conj().T @ y + lam * zz
    v = np.zeros(Gm.shape[0], dtype=complex)
    u = np.zeros(Gm.shape[0], dtype=complex)  # scaled dual
    best = None
    for it in range(iters):
        x = Hinv @ (base + rho * Gm.conj().T @ (v - u))
        Gx = Gm @ x
        v = g_prox(kind, par, 1.0 / rho, Gx + u)
        u = u + Gx - v
        if it % 25 == 24 or it == iters - 1:
            # primal candidate must be feasible for box: use the v-consistent point when G is the identity
            xc = v if (G is None and kind == "box") else x
            # (with a general G the ADMM iterate is only asymptotically feasible for a box: the primal value is then
            #  informative only; checks use the dual lower bound, which is sound by weak duality)
            Pv = primal(A, y, kind, par, G, lam, zz, xc, feas_tol=1e-9 if G is None else 1e-6)
            w = project_dual(kind, par, rho * u)
            Dv = dual_bound(A, y, kind, par, G, lam, zz, w)
            gap = Pv - Dv
            if best is None or gap < best[4]:
                best = (xc.copy(), w.copy(), Pv, Dv, gap)
            if np.isfinite(Pv) and gap <= gap_tol * max(1.0, abs(Pv)):
                break
    return best


def polish(A, y, kind, par, lam, z, x):
    """Active-set refinement of an approximate minimiser (G = identity only):
    freeze the support / active bounds (and, for complex l1, the phases) found
    in x and solve the reduced optimality system exactly."""
    A = np.asarray(A, dtype=complex)
    n = A.shape[1]
    zz = np.zeros(n, dtype=complex) if z is None else np.asarray(z, dtype=complex)
    H = A.conj().T @ A + lam * np.eye(n)
    rhs = A.conj().T @ y + lam * zz
    x = np.array(x, dtype=complex)
    if kind is None:
        return np.linalg.lstsq(H, rhs, rcond=None)[0]
    if kind == "l2sq":
        return np.linalg.solve(H + par * np.eye(n), rhs)
    if kind == "l1":
        for _ in range(30):
            S = np.abs(x) > 1e-7
            if not S.any():
                return np.zeros(n, dtype=complex)
            ph = x[S] / np.abs(x[S])
            xs = np.linalg.lstsq(H[np.ix_(S, S)], rhs[S] - par * ph, rcond=None)[0]
            xn = np.zeros(n, dtype=complex)
            xn[S] = xs
            if np.abs(xn - x).max() <= 1e-15:
                x = xn
                break
            x = xn
        return x
    if kind == "box":
        lo, hi = par
        xr = np.real(x)
        atlo, athi = np.abs(xr - lo) <= 1e-7, np.abs(xr - hi) <= 1e-7
        Fr = ~(atlo | athi)
        xn = np.where(atlo, lo, np.where(athi, hi, 0.0)).astype(complex)
        if Fr.any():
            r = rhs[Fr] - H[np.ix_(Fr, ~Fr)] @ xn[~Fr]
            xn[Fr] = np.linalg.lstsq(H[np.ix_(Fr, Fr)], r, rcond=None)[0]
        return xn
    raise ValueError(kind)


def solve_polished(A, y, kind=None, par=None, lam=0.0, z=None, gap_tol=1e-13):
    """solve() followed by polish(); the polished point is kept only if its certified gap is no worse."""
    x, w, P, D, gap = solve(A, y, kind, par, None, lam, z, gap_tol=gap_tol)
    zz = None if z is None else np.asarray(z, dtype=complex)
    try:
        xp_ = polish(A, np.asarray(y, dtype=complex), kind, par, lam, zz, x)
        Pp = primal(np.asarray(A, dtype=complex), np.asarray(y, dtype=complex), kind, par, None, lam, zz, xp_)
        if np.isfinite(Pp) and Pp - D <= max(gap, 0.0) + 1e-15 * max(1.0, abs(P)):
            return xp_, w, Pp, D, Pp - D
    except np.linalg.LinAlgError:
        pass
    return x, w, P, D, gap
