"""C12 — conjugate gradient produces the Krylov-optimal iterate at every step.

Alphabet (E1): A = U diag(w) U^H, n in 1..6 (quick) / 1..12 (thorough), spectra from a
fixed list, U in {I, Householder, unitary DFT}, b, x0, P in {None, Jacobi, commuting
HPD, fixed HPD}, A as MatMul Linop or Python function, max_iter in {1,2,n,n+2},
tol in {0, 1e-3}; plus indefinite / negative-definite matrices.
Histories (E2): the real object is stepped one update() at a time and the
invariants are evaluated after EVERY prefix.
Oracle: x_k equals the minimiser of ||x - x*||_A over x0 + K_k(PA, P r0)
(vf.ref.krylov, extended precision); A-norm error non-increasing; tracked
residual == b - A x_k; exact solution within d updates (d distinct eigenvalues
of PA); alg.x is the caller's array; on non-positive curvature done() turns true
and x stays finite and is not moved further.
"""
import itertools

import numpy as np

from vf.ref import krylov

PID = "C12"
LEVEL = "model_checking"
ENGINE = "E1+E2"
TECHNIQUE = ("bounded-exhaustive enumeration of CG instances and option combinations; every prefix of the update history of "
             "the real solver object compared step by step with an extended-precision Krylov-optimal reference model")
LEVEL_TEXT = ("For every instance in the finite family the real ConjugateGradient object is stepped one update at a time and "
              "after every prefix its iterate, tracked residual and A-norm error are compared with a reference model that "
              "computes the Krylov-optimal iterate independently; every trace is thereby validated step by step against the "
              "implementation.")
LEVEL_NOTE = ("Instance family tied to finite-precision tolerances: 1e-6 where cond(PA) <= 100, 1e-4 where cond(PA) <= 1e3 and "
              "d <= 6; n > 6 only with <= 4 distinct eigenvalues and commuting preconditioners. The residual clause is not "
              "applied after the final update of the budget, where the library skips the residual update by design.")
RULE = ("full product of the listed option domains per matrix family; one case = one instance (all its prefixes); "
        "states = prefixes visited; non-trivial = n >= 2 and at least 2 updates needed (x_1 != x*)")
ASSUMPTIONS = ["clongdouble Gaussian elimination as reference arithmetic", "A-norm monotonicity slack 1e-9 relative"]
CHUNK = 16

SPECTRA = {
    "single": lambda n: [2.0] * n,
    "two": lambda n: [1.0] * (n // 2) + [4.0] * (n - n // 2),
    "three": lambda n: ([1.0, 3.0, 10.0] * n)[:n],
    "geom100": lambda n: list(np.geomspace(1, 100, n)) if n > 1 else [1.0],
    "geom1000": lambda n: list(np.geomspace(1, 1000, n)) if n > 1 else [1.0],
    "four": lambda n: ([1.0, 2.0, 5.0, 20.0] * n)[:n],
}


def bounds(tier):
    return {"n": ("1..8" if tier == "quick" else "1..16 (n > 12: two unitary families)") + " (n>6: <=4 distinct eigenvalues, commuting preconditioners)", "spectra": list(SPECTRA),
            "U": ["I", "householder", "dft"] + (["3 complex Householder reflections", "householder*dft"] if tier == "thorough" else []), "b": ["e1", "ones", "Uones", "complex"], "x0": ["zero", "(1+i)ones"],
            "P": ["none", "jacobi", "commuting", "hpd"], "A as": ["MatMul", "function"], "max_iter": ["0", "1", "2", "n", "n+2"],
            "tol": [0, 1e-3], "breakdown": ["indefinite", "negative-definite", "singular PSD"],
            "composite A": ["M.H*M + I/4", "M.N + I/4", "I/4 + M.H*M", "I/4 + M.N", "M.H*M/2 + M.H*M/2 + I/4"], "derived operators": ["none", "A+mu I, A-A, Add([A,A]) built before the solve", "... after the first update"],
            "layouts": ["contiguous", "strided x"], "scales": "5 (A, b) scalings 1e-15..1e12"}


def gen_cases(tier, seed):
    T = tier == "thorough"
    cases = []
    ns = range(1, 17) if T else range(1, 9)
    for n in ns:
        for sp_name in SPECTRA:
            if n > 6 and sp_name in ("geom100", "geom1000"):
                continue
            if n == 1 and sp_name != "single":
                continue
            for U in (("I", "householder", "dft", "chouse0", "chouse1", "chouse2", "hd") if T else ("I", "householder", "dft")):
                if n > 12 and U not in ("dft", "chouse1"):
                    continue
                for bname in ("e1", "ones", "Uones", "complex"):
                    for x0 in ("zero", "ones"):
                        for P in ("none", "jacobi", "commuting", "hpd"):
                            if n > 6 and P in ("hpd", "jacobi"):
                                continue
                            if not T and n > 4 and (bname in ("e1",) or (x0 == "ones" and U == "I")):
                                continue
                            for asfn in (False, True):
                                for mi in ("0", "1", "2", "n", "n+2"):
                                    if asfn and mi in ("1", "2") and not T:
                                        continue
                                    if mi == "0" and (n > 3 or bname != "complex"):
                                        continue   # zero updates requested: the caller's x must come back untouched
                                    for tol in (0, 1e-3):
                                        if tol and (mi != "n+2" or asfn):
                                            continue
                                        cases.append(dict(kind="cg", n=n, spectrum=sp_name, U=U, b=bname, x0=x0, P=P,
                                                          asfn=asfn, max_iter=mi, tol=tol))
    # max_iter and tol in other accepted numeric types (counts that come out of NumPy: np.int64 from arange / prod / integers)
    for n in (2, 3, 5):
        for P in ("none", "jacobi"):
            for asfn in (False, True):
                for mi in ("1", "n", "n+2"):
                    for form in ("np.int64", "np.int32", "np.float64-tol"):
                        cases.append(dict(kind="cg", n=n, spectrum="three", U="dft", b="complex", x0="zero", P=P, asfn=asfn,
                                          max_iter=mi, tol=(1e-3 if form == "np.float64-tol" else 0), numform=form))
    # tol > 0 and a caller that keeps stepping by hand after the tolerance was met
    for n in (3, 5, 8):
        for sp_name in ("three", "geom100"):
            for U in ("householder", "dft"):
                for P in ("none", "jacobi"):
                    for asfn in (False, True):
                        for tol in (1e-1, 1e-3):
                            cases.append(dict(kind="cg", n=n, spectrum=sp_name, U=U, b="complex", x0="zero", P=P, asfn=asfn,
                                              max_iter="n+2", tol=tol, past_tol=True))
    # the caller's x as a non-contiguous view (column of a 2-D buffer / every other element): "the solution is written
    # into the array the caller passed" must hold for any array layout
    for n in (2, 3, 5):
        for U in ("householder", "dft"):
            for P in ("none", "jacobi"):
                for asfn in (False, True):
                    for x0 in ("zero", "ones"):
                        cases.append(dict(kind="cg", n=n, spectrum="three", U=U, b="complex", x0=x0, P=P, asfn=asfn,
                                          max_iter="n", tol=0, xlayout="strided"))
    # A given as a composite Linop built from a complex matrix and its adjoint (M.H * M + lam * I and M.N + lam * I):
    # the operator object is applied many times during one solve, so state it carries between applications matters
    for n in (2, 3, 5):
        for comp in ("MH*M", "M.N", "I+MH*M", "I+M.N", "chain3"):     # the regularisation term as last or as FIRST summand; a three-term `+` chain
            for P in ("none", "jacobi"):
                cases.append(dict(kind="cg", n=n, spectrum="three", U="dft", b="complex", x0="zero", P=P, asfn=False,
                                  max_iter="n+2", tol=0, composite=comp))
                # ... and other operators are derived from it while it is in use (a regularisation sweep builds
                # A + mu I for several mu from one A): before the solve starts, or between two updates
                for derive in ("before", "during"):
                    cases.append(dict(kind="cg", n=n, spectrum="three", U="dft", b="complex", x0="zero", P=P, asfn=False,
                                      max_iter="n+2", tol=0, composite=comp, derive=derive))
    # systems far from unit scale: CG is invariant under A -> sA, b -> tb (iterates scale by t/s)
    for n in (2, 4):
        for (sa, sb) in ((1e-12, 1.0), (1e12, 1.0), (1e-10, 1e-10), (1.0, 1e-15), (1e8, 1e-8)):
            for P in ("none", "jacobi"):
                for asfn in (False, True):
                    cases.append(dict(kind="cg", n=n, spectrum="three", U="dft", b="complex", x0="zero", P=P, asfn=asfn,
                                      max_iter="n+2", tol=0, scaleA=sa, scaleb=sb))
    for kind in ("indefinite", "negdef", "singular"):
        for n in (1, 2, 3, 4):
            for U in ("I", "householder", "dft"):
                for asfn in (False, True):
                    cases.append(dict(kind="breakdown", which=kind, n=n, U=U, asfn=asfn))
    return cases


def unitary(name, n):
    if name == "I":
        return np.eye(n, dtype=complex)
    if name == "householder":
        v = np.arange(1, n + 1, dtype=float)
        v = v / np.linalg.norm(v)
        return (np.eye(n) - 2 * np.outer(v, v)).astype(complex)
    if name.startswith("chouse"):
        # complex Householder reflections with different generating vectors (thorough tier): Hermitian, non-real systems
        j = int(name[6:] or 0)
        v = np.cos(np.arange(1, n + 1) * (0.7 + j)) + 1j * np.sin(np.arange(1, n + 1) * (1.3 + 0.5 * j))
        v = v / np.linalg.norm(v)
        return np.eye(n, dtype=complex) - 2 * np.outer(v, v.conj())
    if name == "hd":
        return unitary("householder", n) @ unitary("dft", n)
    k = np.arange(n)
    return np.exp(-2j * np.pi * np.outer(k, k) / n) / np.sqrt(n)


def instance(case):
    n = case["n"]
    U = unitary(case["U"], n)
    w = np.array(SPECTRA[case["spectrum"]](n), dtype=float)
    A = (U * w) @ U.conj().T
    A = (A + A.conj().T) / 2
    if case["U"] in ("I", "householder"):
        A = A.real.astype(complex)
    b = {"e1": np.eye(n)[0].astype(complex), "ones": np.ones(n, complex),
         "Uones": U @ np.ones(n, complex),
         "complex": (np.cos(np.arange(n) + 1.0) + 1j * np.sin(2.0 * np.arange(n) + 0.5))}[case["b"]]
    x0 = np.zeros(n, complex) if case["x0"] == "zero" else (1 + 1j) * np.ones(n, complex)
    P = None
    if case["P"] == "jacobi":
        P = np.diag(1.0 / np.real(np.diag(A))).astype(complex)
    elif case["P"] == "commuting":
        p = 1.0 / np.sqrt(w)
        P = (U * p) @ U.conj().T
        P = (P + P.conj().T) / 2
    elif case["P"] == "hpd":
        V = unitary("householder", n) @ unitary("dft", n)
        P = (V * np.linspace(1, 2, n)) @ V.conj().T
        P = (P + P.conj().T) / 2
    return A, b, x0, P


def anorm(A, e):
    return float(np.sqrt(max(0.0, np.real(np.vdot(e, A @ e)))))


def run_case(case, seed):
    import sigpy as sp
    if case["kind"] == "breakdown":
        return run_breakdown(case)
    viol = []
    n = case["n"]
    A, b, x0, P = instance(case)
    if case.get("scaleA"):
        A = A * case["scaleA"]
        b = b * case["scaleb"]
        if P is not None:
            P = P / case["scaleA"]
    when = "P=%s, max_iter=%s, A as %s%s%s" % (case["P"], case["max_iter"], "function" if case["asfn"] else "Linop",
                                               ", non-contiguous x" if case.get("xlayout") else "",
                                               ", other operators derived from A" if case.get("derive") else "")

    def V(oracle, detail):
        viol.append(dict(oracle=oracle, key=dict(site="alg.ConjugateGradient", when=when), detail=detail + " | " + str(case)))

    max_iter = {"0": 0, "1": 1, "2": 2, "n": n, "n+2": n + 2}[case["max_iter"]]
    strided = case.get("xlayout") == "strided"
    if case["asfn"]:
        Aop = lambda x: A @ x  # noqa
        if strided:
            buf = np.zeros(2 * n, complex)
            xc = buf[::2]
            xc[:] = x0
        else:
            xc = x0.copy()
        bb = b.copy()
        Pop = None if P is None else (lambda r: P @ r)
    else:
        Aop = sp.linop.MatMul([n, 1], A)
        if case.get("composite"):
            Msq = np.linalg.cholesky(A - 0.25 * np.eye(n)).conj().T      # A = Msq^H Msq + 0.25 I, Msq complex upper triangular
            Mop = sp.linop.MatMul([n, 1], Msq)
            core = Mop.H * Mop if case["composite"].endswith("MH*M") else Mop.N
            reg = 0.25 * sp.linop.Identity([n, 1])
            if case["composite"] == "chain3":
                Aop = 0.5 * core + core * 0.5 + reg        # B1 + B2 + lam I, written as one expression
            else:
                Aop = (reg + core) if case["composite"].startswith("I+") else (core + reg)
        if case.get("derive") == "before":
            derived = [Aop + 0.5 * sp.linop.Identity([n, 1]), Aop - Aop, sp.linop.Add([Aop, Aop])]
        if strided:
            buf = np.zeros((n, 3), complex)
            xc = buf[:, 1:2]
            xc[:, 0] = x0
        else:
            xc = x0.copy().reshape(n, 1)
        bb = b.copy().reshape(n, 1)
        Pop = None if P is None else sp.linop.MatMul([n, 1], P)
    b0 = bb.copy()
    A0 = A.copy()
    xstar = np.linalg.solve(A, b)
    # spectrum of the preconditioned operator
    if P is None:
        ev = np.linalg.eigvalsh(A)
    else:
        Lc = np.linalg.cholesky(P)
        ev = np.linalg.eigvalsh(Lc.conj().T @ A @ Lc)
    cond = float(ev.max() / ev.min())
    d = 1 + int(np.sum(np.diff(np.sort(ev)) > 1e-7 * ev.max()))
    tolx = 1e-6 if cond <= 100 else 1e-4
    strict = cond <= 100 or d <= 6
    refs, inv_at = krylov.krylov_iterates(A, b, x0, P, max_iter)
    mi_arg, tol_arg = max_iter, case["tol"]
    if case.get("numform") == "np.int64":
        mi_arg = np.int64(max_iter)
    elif case.get("numform") == "np.int32":
        mi_arg = np.arange(max_iter + 1, dtype=np.int32)[-1]
    elif case.get("numform") == "np.float64-tol":
        tol_arg = np.float64(case["tol"])
    alg = sp.alg.ConjugateGradient(Aop, bb, xc, P=Pop, max_iter=mi_arg, tol=tol_arg)
    scale = max(np.linalg.norm(xstar), 1e-300)
    err_prev = anorm(A, x0 - xstar)
    e0 = max(err_prev, 1e-300)
    states = 1
    k = 0
    stopped_by_tol = False
    while k < max_iter + 2:
        if k >= max_iter:
            # the documented driver loop (`while not alg.done(): alg.update()`) must stop here
            if not alg.done():
                V("max-iter", "done() is still False after max_iter = %d updates" % max_iter)
            break
        if alg.done() and case["tol"] and not stopped_by_tol and case.get("past_tol"):
            # the tolerance was met: judge the stop now ...
            stopped_by_tol = True
            xk = np.asarray(xc).ravel()
            r_ = b - A @ xk
            z_ = r_ if P is None else P @ r_
            res_ = float(np.sqrt(max(0.0, np.real(np.vdot(r_, z_)))))
            if not res_ <= case["tol"] * (1 + 1e-6) + 1e-12:
                V("tolerance-stop", "done() by tolerance but sqrt(r^H P r) = %.3g > tol" % res_)
                break
            if res_ == 0.0:
                break
            # ... and keep stepping by hand (a caller's `for k in range(n): alg.update()`): the residual is not zero, so the
            # recurrences are well defined and every further prefix must still be the Krylov-optimal iterate
        elif alg.done():
            # "Once done, the object should not be run again" (Alg docstring): the prefixes of interest are those of the
            # documented driver loop; with tol = 0 this only happens once the tracked residual is exactly zero
            stopped_by_tol = bool(case["tol"])
            if not case["tol"] and not alg.not_positive_definite:
                # tol = 0: stopping before max_iter is only legitimate at the exact solution
                xk = np.asarray(xc).ravel()
                rel = np.linalg.norm(b - A @ xk) / max(np.linalg.norm(b), 1e-300)
                if not rel <= 1e-12 * max(1.0, cond):
                    V("early-stop", "done() after %d of %d updates with tol = 0 although ||b - A x|| / ||b|| = %.3g" % (k, max_iter, rel))
            break
        alg.update()
        k += 1
        states += 1
        if alg.not_positive_definite:
            # the instance IS Hermitian positive definite (spectrum chosen >= 0.25 > 0)
            V("false-breakdown", "not_positive_definite was set at update %d on a positive-definite system (smallest eigenvalue %.3g)" % (k, float(ev.min())))
            break
        if k == 1 and case.get("derive") == "during":
            derived = [Aop + 0.5 * sp.linop.Identity([n, 1]), Aop - Aop, sp.linop.Add([Aop, Aop])]
        if alg.x is not xc:
            V("in-place", "after %d updates alg.x is no longer the caller's array" % k)
            break
        xk = np.asarray(xc).ravel()
        if not np.all(np.isfinite(xk)):
            V("finite", "iterate not finite after %d updates" % k)
            break
        if strict:
            dev = np.linalg.norm(xk - refs[k]) / scale
            if not dev <= tolx:
                V("krylov-optimal", "after %d updates ||x_k - x_k^ref|| / ||x*|| = %.3g (tol %g, cond %.3g, d=%d)" % (k, dev, tolx, cond, d))
                break
        err = anorm(A, xk - xstar)
        if not err <= err_prev * (1 + 1e-9) + 1e-10 * e0:
            V("anorm-monotone", "A-norm error rose from %.6g to %.6g at update %d" % (err_prev, err, k))
            break
        err_prev = err
        if k < max_iter and not alg.not_positive_definite:
            rtrue = b - A @ xk
            dr = np.linalg.norm(np.asarray(alg.r).ravel() - rtrue) / max(np.linalg.norm(b), 1e-300)
            if not dr <= 1e-8 * max(1.0, cond):   # relative to ||b||
                V("tracked-residual", "after %d updates ||r - (b - A x)|| / ||b|| = %.3g" % (k, dr))
                break
        if k >= d and strict:
            fin = anorm(A, xk - xstar) / e0
            if not fin <= 10 * tolx:
                V("finite-termination", "not at the exact solution after %d >= d=%d updates (relative A-norm error %.3g)" % (k, d, fin))
                break
    if stopped_by_tol and not viol and not case.get("past_tol"):
        xk = np.asarray(xc).ravel()
        r = b - A @ xk
        z = r if P is None else P @ r
        res = float(np.sqrt(max(0.0, np.real(np.vdot(r, z)))))
        if not res <= case["tol"] * (1 + 1e-6) + 1e-12:
            V("tolerance-stop", "done() by tolerance but sqrt(r^H P r) = %.3g > tol" % res)
    if max_iter == 0 and not viol and not np.array_equal(np.asarray(xc).ravel(), x0):
        V("in-place", "max_iter = 0 but the caller's x was changed")
    if bb.tobytes() != b0.tobytes():
        V("input-mutated", "right-hand side b was modified")
    if A.tobytes() != A0.tobytes():
        V("input-mutated", "matrix was modified")
    nontrivial = n >= 2 and np.linalg.norm(refs[min(1, max_iter)] - xstar) > 1e-9 * scale
    return dict(states=states, transitions=k, traces=1, nontrivial=bool(nontrivial),
                outcome=("ok" if not viol else "violation:" + viol[0]["oracle"]) + ("/tol-stop" if stopped_by_tol else ""), viol=viol)


def run_breakdown(case):
    import sigpy as sp
    viol = []
    n, which = case["n"], case["which"]
    U = unitary(case["U"], n)
    if which == "indefinite":
        w = np.array(([1.0, -1.0, 2.0, -3.0] * n)[:n]) if n > 1 else np.array([-1.0])
    elif which == "negdef":
        w = -np.array(([1.0, 2.0, 5.0, 3.0] * n)[:n])
    else:
        w = np.array(([0.0, 1.0, 0.0, 2.0] * n)[:n])
    A = (U * w) @ U.conj().T
    A = (A + A.conj().T) / 2
    when = which + (", A as function" if case["asfn"] else ", A as Linop")

    def V(oracle, detail):
        viol.append(dict(oracle=oracle, key=dict(site="alg.ConjugateGradient", when=when), detail=detail + " | " + str(case)))
    b = U @ np.ones(n, complex)
    if case["asfn"]:
        Aop = lambda x: A @ x  # noqa
        xc = np.zeros(n, complex)
        bb = b.copy()
    else:
        Aop = sp.linop.MatMul([n, 1], A)
        xc = np.zeros((n, 1), complex)
        bb = b.copy().reshape(n, 1)
    max_iter = 2 * n + 3
    alg = sp.alg.ConjugateGradient(Aop, bb, xc, max_iter=max_iter, tol=0)
    k = 0
    flagged_at = None
    x_at_flag = None
    while k < max_iter:
        if alg.done() and flagged_at is None and alg.not_positive_definite:
            flagged_at = k
            x_at_flag = np.array(xc)
        alg.update()
        k += 1
        if not np.all(np.isfinite(np.asarray(xc))):
            V("finite", "iterate became non-finite at update %d" % k)
            break
        if flagged_at is not None and not np.array_equal(np.asarray(xc), x_at_flag):
            V("moved-after-breakdown", "x changed after non-positive curvature was flagged (update %d)" % k)
            break
    xnorm = float(np.linalg.norm(np.asarray(xc)))
    if which in ("indefinite", "negdef") and not viol:
        if flagged_at is None and not alg.not_positive_definite:
            # indefinite matrices can have p^H A p > 0 along the whole run; only a diverging iterate is a violation
            if not xnorm <= 1e6 * max(1.0, np.linalg.norm(b)):
                V("diverged", "no breakdown flagged and ||x|| = %.3g" % xnorm)
        if which == "negdef" and not alg.not_positive_definite:
            V("breakdown-not-detected", "negative-definite operator: not_positive_definite never set")
        if which == "negdef" and not alg.done():
            V("breakdown-not-detected", "done() is false after non-positive curvature")
    return dict(states=k + 1, transitions=k, traces=1, nontrivial=True,
                outcome=("flagged" if alg.not_positive_definite else "not-flagged") if not viol else "violation:" + viol[0]["oracle"], viol=viol)
