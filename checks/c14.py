"""C14 — LinearLeastSquares returns the documented minimiser whatever the solver.

Alphabet: the FULL product solver in {None, CG, GradientMethod, PDHG, ADMM} x lamda in
{0, 1/2} x z in {None, array} x proxg in {None, L1Reg, L2Reg, BoxConstraint} x G in {None,
dense, FiniteDifference} x step arguments given/defaulted (P; alpha; tau/sigma/both/
neither; rho in {1, 1/2}) x initial x given/None x A in {Identity, dense real 3x2}
(quick) + {Multiply(diag), dense complex 3x2} (thorough).
Oracle: the documented objective P(x) = 1/2||Ax-y||^2 + g(Gx) + lamda/2||x-z||^2 evaluated
by the harness against a lower bound certified by weak duality (vf.ref.convex); a
combination must either raise or return x with P(x) - P* <= 1e-5 max(1, P*).
Documented exclusions must raise.  y, z and A's arrays are snapshot-checked and
the caller's x buffer must be the returned array.
"""
import itertools

import numpy as np

from vf import snapshot
from vf.ref import convex

PID = "C14"
LEVEL = "exploration"
ENGINE = "E1"
TECHNIQUE = ("exhaustive enumeration of the full solver x option product on the real App; returned point's documented "
             "objective compared with a weak-duality-certified optimum; byte snapshots of caller data")
LEVEL_TEXT = ("Every combination of solver, regulariser, operator and step arguments in the finite product is run on the real "
              "LinearLeastSquares and the documented objective at the returned point is compared with a certified optimum, so "
              "all applicable solvers are shown to agree; data values are a finite family (two operators x one seeded instance), "
              "hence exploration.")
LEVEL_NOTE = "max_iter = 4000 (ADMM 1500 x 10 inner CG steps); acceptance 1e-5 relative objective gap; box constraints on real data only."
RULE = ("full option product; one case = one combination; non-trivial = combination is applicable (does not raise) and the "
        "optimum differs from the zero vector")
ASSUMPTIONS = ["reference lower bound from a dual point (sound by weak duality) with gap <= 1e-9", "numpy.random seeded before each run (MaxEig draws)"]
CHUNK = 4

SOLVERS = [None, "ConjugateGradient", "GradientMethod", "PrimalDualHybridGradient", "ADMM"]
STEPV = {None: ["default"], "ConjugateGradient": ["default", "P"], "GradientMethod": ["default", "alpha"],
         "PrimalDualHybridGradient": ["default", "tau", "sigma", "both"], "ADMM": ["rho1", "rho05"]}


def bounds(tier):
    return {"solver": [str(s) for s in SOLVERS], "step variants": {str(k): v for k, v in STEPV.items()}, "lamda": [0, 0.5],
            "z": ["None", "array"], "proxg": ["None", "L1Reg(0.3)", "L2Reg(0.5)", "BoxConstraint(-0.25,0.4)"],
            "G": ["None", "dense 3xn", "FiniteDifference"], "x": ["None", "zeros", "minimiser of the smooth part", "the minimiser", "generic", "generic, read-only"],
            "A": ["Identity", "dense real 3x2", "2x2 and circulant 3x3 with the constant vector as a non-dominant eigenvector of A^H A"] + (["Multiply(diag)", "dense complex 3x2"] if tier == "thorough" else [])}


def gen_cases(tier, seed):
    cases = []
    As = ["identity", "real32"] + (["multiply", "cplx32"] if tier == "thorough" else [])
    for A in As:
        for solver in SOLVERS:
            for sv in STEPV[solver]:
                for lam in (0, 0.5):
                    for z in (False, True):
                        for pg in (None, "l1", "l2sq", "box"):
                            if pg == "box" and A == "cplx32":
                                continue
                            for G in (None, "dense", "fd"):
                                for xg in (False, True):
                                    cases.append(dict(kind="lls", A=A, solver=solver, step=sv, lamda=lam, z=z, proxg=pg, G=G, x=xg))
    for i, c in enumerate(cases):
        c["side"] = (i % 5 == 0) and not c["x"]
    # operators with exact structure (constant vector = non-dominant eigenvector of A^H A): every solver, default steps
    for A in ("sym2", "circ3", "adj22"):
        for solver in SOLVERS:
            for lam in (0, 0.5):
                for pg in (None, "l1", "box"):
                    if solver == "ConjugateGradient" and pg:
                        continue
                    cases.append(dict(kind="lls", A=A, solver=solver, step=STEPV[solver][0], lamda=lam, z=False, proxg=pg, G=None, x=False))
    # one operator object used for two solves, its matrix overwritten in place in between (alternating least squares):
    # the second solve must minimise the objective of ONE operator - the updated one (the library holds a reference) or,
    # if a library chose to copy, the old one - not a mixture of A and a stale A.H
    for A in ("real32", "sym2"):
        for solver in SOLVERS:
            for lam in (0, 0.5):
                for pg in (None, "l1"):
                    if solver == "ConjugateGradient" and pg:
                        continue
                    cases.append(dict(kind="lls-reuse", A=A, solver=solver, step=STEPV[solver][0], lamda=lam, z=False, proxg=pg, G=None, x=False))
    # warm starts: the initial x as the minimiser of the smooth part, as the minimiser itself, and a generic vector
    for A in ("identity", "multiply", "real32"):
        for solver in SOLVERS:
            for lam in (0, 0.5):
                for pg in (None, "l1", "l2sq", "box"):
                    if solver == "ConjugateGradient" and pg:
                        continue
                    for xg in ("ls", "opt", "generic", "readonly"):
                        cases.append(dict(kind="lls", A=A, solver=solver, step=STEPV[solver][0], lamda=lam, z=False, proxg=pg, G=None, x=xg))
    # problems far from unit scale (A -> sa*A, y -> sy*y, l1 weight scaled so that the problem is equivalent): the
    # documented minimiser is scale-equivariant, a solver with an absolute threshold is not
    for A in ("real32", "identity"):
        for solver in (None, "ConjugateGradient", "GradientMethod"):
            # (only the solvers whose iteration is itself scale-equivariant with default steps; ADMM's rho and PDHG's
            #  sigma are absolute numbers, so their convergence speed legitimately depends on the scale)
            for pg in (None, "l1"):
                if solver == "ConjugateGradient" and pg:
                    continue
                for sa, sy in ((1e-4, 1.0), (1.0, 1e-9), (1e4, 1e4), (1e-3, 1e-6)):
                    cases.append(dict(kind="lls", A=A, solver=solver, step=STEPV[solver][0], lamda=0, z=False, proxg=pg, G=None, x=False,
                                      scale=[sa, sy]))
    return cases


PAR = {"l1": 0.3, "l2sq": 0.5, "box": (-0.25, 0.4)}


def setup(case, seed):
    import sigpy as sp
    r = np.random.default_rng(31 + seed)
    An = case["A"]
    cplx = An == "cplx32"
    n = 2 if An in ("real32", "cplx32", "sym2", "circ3", "adj22") else 3
    if An == "circ3":
        n = 3
    if An == "identity":
        A = sp.linop.Identity([n])
        Am = np.eye(n)
    elif An == "multiply":
        d = np.array([1.0, 0.5, 2.0])
        A = sp.linop.Multiply([n], d)
        Am = np.diag(d)
    elif An == "sym2":
        # structured operators: the constant vector is an exact eigenvector of A^H A, and NOT the dominant one
        # (A^H A = [[5,-3],[-3,5]]: eigenvalue 2 on (1,1), 8 on (1,-1))
        Am = np.array([[2.0, -2.0], [1.0, 1.0]])
        A = sp.linop.MatMul([n, 1], Am)
    elif An == "circ3":
        Am = np.array([[2.0, -1.0, 0.0], [0.0, 2.0, -1.0], [-1.0, 0.0, 2.0]])     # circulant: A^H A has eigenvalue 1 on ones, 7 elsewhere
        A = sp.linop.MatMul([n, 1], Am)
    elif An == "adj22":
        # the operator given through MatMul's adjoint flag: A x = B^H x for a square, non-normal B
        Bm = np.array([[1.0, 2.0], [0.0, 0.5]])
        Am = Bm.conj().T.copy()
        A = sp.linop.MatMul([n, 1], Bm, adjoint=True)
    else:
        Am = r.standard_normal((3, 2)) + (1j * r.standard_normal((3, 2)) if cplx else 0)
        A = sp.linop.MatMul([n, 1], Am)
    col = An in ("real32", "cplx32", "sym2", "circ3", "adj22")
    shp = [n, 1] if col else [n]
    dt = np.complex128 if cplx else np.float64
    xt = np.array([0.8, -0.05, 0.3][:n], dtype=dt) * ((1 + 0.5j) if cplx else 1)
    y = (Am @ xt + 0.1 * (r.standard_normal(Am.shape[0]) + (1j * r.standard_normal(Am.shape[0]) if cplx else 0))).astype(dt)
    z = (np.array([0.2, -0.4, 0.1][:n]) * ((1 - 0.3j) if cplx else 1)).astype(dt)
    Gm = None
    G = None
    if case["G"] == "dense":
        Gm = np.array([[1.0, -1.0, 0.5], [0.0, 1.0, 1.0], [2.0, 0.5, -1.0]])[:, :n]
        if col:
            G = sp.linop.MatMul(shp, Gm)
        else:
            G = sp.linop.Reshape([3], [3, 1]) * sp.linop.MatMul([n, 1], Gm) * sp.linop.Reshape([n, 1], [n])
    elif case["G"] == "fd":
        G = sp.linop.FiniteDifference(shp)
        from vf import dense
        Gm = np.real(dense.dense_linop(G))
    return A, Am, y.reshape([Am.shape[0], 1] if col else [Am.shape[0]]), z.reshape(shp), G, Gm, shp, dt


def make_prox(kind, shape):
    import sigpy as sp
    if kind is None:
        return None
    if kind == "l1":
        return sp.prox.L1Reg(shape, PAR["l1"])
    if kind == "l2sq":
        return sp.prox.L2Reg(shape, PAR["l2sq"])
    return sp.prox.BoxConstraint(shape, PAR["box"][0], PAR["box"][1])


def classify(case):
    s = str(case["solver"])
    w = []
    if case["G"]:
        w.append("G")
    if case["proxg"]:
        w.append("proxg")
    if case["lamda"]:
        w.append("lamda")
    if case["A"] == "identity":
        w.append("A=Identity")
    return s, "+".join(w) if w else "plain"


def exc_key(case, root):
    s, w = classify(case)
    return dict(site="LinearLeastSquares/" + s, when=w + ", raised " + type(root).__name__)


def no_return_key(case):
    s, w = classify(case)
    return dict(site="LinearLeastSquares/" + s, when=w + ", no return")


def run_reuse(case, seed):
    import sigpy as sp
    A, Am, y, z, G, Gm, shp, dt = setup(case, seed)
    viol = []
    site, when = classify(case)
    site = "LinearLeastSquares/" + site
    lam, kind = case["lamda"], case["proxg"]
    par = PAR.get(kind)
    kw = dict(lamda=lam, solver=case["solver"], tol=0, show_pbar=False, max_iter=1500 if case["solver"] == "ADMM" else 4000)
    if kind:
        kw["proxg"] = make_prox(kind, shp)
    if case["solver"] == "ADMM":
        kw["rho"] = 1.0
    np.random.seed((seed + 12345) % 2 ** 32)
    sp.app.LinearLeastSquares(A, y.copy(), **kw).run()
    A.H, A.N          # (whatever the first solve memoised stays memoised)
    Am_old = Am.copy()
    Am[...] = 0.7 * Am[::-1] + 0.1          # the caller updates the matrix in place
    y2 = (y[::-1] * 0.5 + 0.2).copy()
    if kind:
        kw["proxg"] = make_prox(kind, shp)
    np.random.seed((seed + 12345) % 2 ** 32)
    x = sp.app.LinearLeastSquares(A, y2.copy(), **kw).run()
    xv = np.asarray(x).ravel().astype(complex)
    gaps = []
    for label, Mx in (("updated", Am), ("old", Am_old)):
        xr, w, Pr, D, gap = convex.solve(Mx.astype(complex), y2.ravel().astype(complex), kind, par, None, lam, None, gap_tol=1e-12)
        P = convex.primal(Mx.astype(complex), y2.ravel().astype(complex), kind, par, None, lam, None, xv, feas_tol=1e-6) if np.all(np.isfinite(xv)) else float("inf")
        gaps.append((label, P - D, 1e-5 * max(1.0, abs(D))))
    if not any(g <= t for _, g, t in gaps):
        viol.append(dict(oracle="objective-gap", key=dict(site=site, when=when + "+matrix overwritten between two solves"),
                         detail="second solve on the same operator after its matrix was overwritten in place: the result minimises neither "
                                "the updated problem (gap %.3g) nor the old one (gap %.3g) | %s" % (gaps[0][1], gaps[1][1], case)))
    return dict(states=2, transitions=2, nontrivial=True, outcome=("reuse:" + ("updated" if gaps[0][1] <= gaps[0][2] else "old")) if not viol else "violation:objective-gap", viol=viol)


def run_case(case, seed):
    import sigpy as sp
    if case["kind"] == "lls-reuse":
        return run_reuse(case, seed)
    A, Am, y, z, G, Gm, shp, dt = setup(case, seed)
    viol = []
    site, when = classify(case)
    site = "LinearLeastSquares/" + site

    def V(oracle, detail, w=None):
        viol.append(dict(oracle=oracle, key=dict(site=site, when=w or when), detail=detail + " | " + str(case)))

    lam = case["lamda"]
    kind = case["proxg"]
    par = PAR.get(kind)
    sa, sy = case.get("scale", [1.0, 1.0])
    if case.get("scale"):
        import sigpy as _sp
        Am = Am * sa
        A = _sp.linop.MatMul(shp, Am) if len(shp) == 2 else _sp.linop.Multiply(shp, sa) * A
        y = y * sy
        if kind == "l1":
            par = par * sa * sy
        when += "+scaled"
    zz = z if case["z"] else None
    n = Am.shape[1]
    kw = dict(lamda=lam, solver=case["solver"], tol=0, show_pbar=False,
              max_iter=1500 if case["solver"] == "ADMM" else 4000)
    if kind:
        kw["proxg"] = make_prox(kind, shp if G is None else list(G.oshape))
        if case.get("scale") and kind == "l1":
            kw["proxg"] = sp.prox.L1Reg(shp, par)
    if G is not None:
        kw["G"] = G
    if zz is not None:
        kw["z"] = zz
    L = np.linalg.norm(Am, 2) ** 2 + lam
    sv = case["step"]
    if sv == "P":
        kw["P"] = sp.linop.Multiply(shp, 1.0 / (np.sum(np.abs(Am) ** 2, axis=0).reshape(shp) + lam))
    elif sv == "alpha":
        kw["alpha"] = 1.0 / L
    elif sv in ("tau", "sigma", "both"):
        Kn = np.linalg.norm(np.vstack([Am] + ([Gm] if Gm is not None else [])), 2)
        if sv in ("tau", "both"):
            kw["tau"] = 1.0 / Kn
        if sv in ("sigma", "both"):
            kw["sigma"] = 1.0 / Kn
    elif sv == "rho05":
        kw["rho"] = 0.5
    y0, z0 = y.copy(), z.copy()
    # reference
    yv, zv = y0.ravel().astype(complex), (z0.ravel().astype(complex) if zz is not None else None)
    if case.get("scale"):
        # solve the equivalent unit-scale problem and map back (x = sy/sa * x_unit, objective scales with sy^2)
        xr, w, Pr, D, gap = convex.solve(Am / sa, yv / sy, kind, (par / (sa * sy)) if kind == "l1" else par, None, lam, zv, gap_tol=1e-12)
        xr, Pr, D, gap = xr * sy / sa, Pr * sy * sy, D * sy * sy, gap * sy * sy
    else:
        xr, w, Pr, D, gap = convex.solve(Am, yv, kind, par, Gm if kind else None, lam, zv, gap_tol=1e-12)
    if not np.isfinite(D):
        raise RuntimeError("reference dual bound not finite")
    x_in = None
    if case["x"]:
        x_in = np.zeros(shp, dtype=dt)
        if case["x"] == "ls":
            # warm start at the minimiser of the smooth part alone (its gradient vanishes there - exactly, for diagonal A
            # with power-of-two entries and lamda = 0), which is NOT the minimiser once proxg is present
            H = Am.conj().T @ Am + lam * np.eye(n)
            rhs = Am.conj().T @ y0.ravel() + (lam * z0.ravel() if zz is not None else 0)
            xls = (y0.ravel() / np.diag(Am)) if (lam == 0 and Am.shape[0] == n and np.array_equal(Am, np.diag(np.diag(Am)))) else np.linalg.solve(H, rhs)
            x_in[...] = xls.reshape(shp).astype(dt)
        elif case["x"] == "opt":
            x_in[...] = (xr.real if dt == np.float64 else xr).reshape(shp).astype(dt)     # already optimal: must stay
        elif case["x"] in ("generic", "readonly"):
            x_in[...] = (np.cos(np.arange(n) + 1.0) * 0.7).reshape(shp).astype(dt)
        if case["x"] == "readonly":
            x_in.setflags(write=False)      # the solution cannot be written there: an error is fine, a silent non-answer is not
        kw["x"] = x_in
    snapA = snapshot.walk(A)
    excluded = (case["solver"] == "ConjugateGradient" and kind) or (case["solver"] == "GradientMethod" and G is not None)
    np.random.seed((seed + 12345) % 2 ** 32)
    try:
        app = sp.app.LinearLeastSquares(A, y, **kw)
        x = app.run()
    except Exception as e:
        raised = e
        if y.tobytes() != y0.tobytes():
            V("input-mutated", "y modified although the call raised", "y overwritten")
        return dict(states=1, transitions=1, nontrivial=False, outcome="raised:" + type(_root(e)).__name__, viol=viol)
    if excluded:
        V("documented-exclusion-not-raised", "this solver cannot handle the combination but no error was raised")
    xv = np.asarray(x).ravel().astype(complex)
    ok_shape = list(np.asarray(x).shape) == list(shp)
    if not ok_shape:
        V("output-shape", "returned shape %s, expected %s" % (list(np.asarray(x).shape), shp))
    else:
        if not np.all(np.isfinite(xv)):
            V("objective-gap", "returned x is not finite: %s" % xv)
        else:
            P = convex.primal(Am.astype(complex), yv, kind, par, Gm if kind else None, lam, zv, xv, feas_tol=1e-6)
            tol = 1e-5 * max(1.0 if not case.get("scale") else sy * sy, abs(D))
            if not P - D <= tol + max(0.0, min(gap, 1e-9)):
                V("objective-gap", "documented objective at the returned x is %.9g, certified optimum %.9g (gap %.3g); x=%s, x_ref=%s" % (
                    P, D, P - D, np.array2string(xv, precision=5), np.array2string(xr, precision=5)))
    # a finished App asked again gives the same answer (run() after run())
    if ok_shape and np.all(np.isfinite(xv)):
        try:
            x_again = np.asarray(app.run()).ravel().astype(complex)
            if x_again.shape != xv.shape or not np.abs(x_again - xv).max() <= 1e-10 * max(1.0, np.abs(xv).max()):
                V("second-run-differs", "run() called a second time on the finished app returned a different x (max diff %.3g)" % (
                    float(np.abs(x_again - xv).max()) if x_again.shape == xv.shape else float("inf")), "second run()")
        except Exception as e:
            V("second-run-differs", "run() called a second time raised %s: %s" % (type(e).__name__, str(e)[:100]), "second run()")
    # options that must not change the result: progress bar on, objective values recorded
    if ok_shape and np.all(np.isfinite(xv)) and case.get("side", False):
        import contextlib, io
        A2, Am2, y2, z2, G2, Gm2, shp2, dt2 = setup(case, seed)
        kw2 = dict(kw)
        kw2["show_pbar"] = True
        kw2["save_objective_values"] = kind is None     # (with proxg the objective needs g, documented)
        if kind:
            kw2["proxg"] = make_prox(kind, shp if G is None else list(G.oshape))
        if G2 is not None:
            kw2["G"] = G2
        if zz is not None:
            kw2["z"] = z2
        kw2.pop("x", None)
        kw2.pop("P", None)
        if case.get("scale"):
            pass
        else:
            np.random.seed((seed + 12345) % 2 ** 32)
            with contextlib.redirect_stderr(io.StringIO()), contextlib.redirect_stdout(io.StringIO()):
                app2 = sp.app.LinearLeastSquares(A2, y2, **kw2)
                xs = np.asarray(app2.run()).ravel().astype(complex)
            if "P" not in kw and (x_in is None or not np.any(x_in)):
                if xs.shape != xv.shape or not np.abs(xs - xv).max() <= 1e-9 * max(1.0, np.abs(xv).max()):
                    V("side-option-changes-result", "show_pbar=True, save_objective_values=True changed the returned x by %.3g" % (
                        float(np.abs(xs - xv).max()) if xs.shape == xv.shape else float("inf")), "side options")
    if x_in is not None and x is not x_in:
        V("returns-callers-x", "the caller's x buffer is not the returned array", "x buffer")
    if y.tobytes() != y0.tobytes():
        V("input-mutated", "the caller's y was overwritten (now %s)" % np.array2string(y.ravel(), precision=4), "y overwritten")
    if z.tobytes() != z0.tobytes():
        V("input-mutated", "the caller's z was overwritten", "z overwritten")
    snap2 = snapshot.walk(A)
    for p, d in snapA.items():
        if p in snap2 and snap2[p] != d:
            V("captured-array-mutated", "array %s of A changed" % p, "A arrays")
    nontrivial = np.linalg.norm(xr) > 1e-9
    return dict(states=1, transitions=int(getattr(app.alg, "iter", 1)), nontrivial=bool(nontrivial),
                outcome="returned" if not viol else "violation:" + viol[0]["oracle"], viol=viol)


def _root(e):
    seen = set()
    while (e.__cause__ or e.__context__) is not None and id(e) not in seen:
        seen.add(id(e))
        e = e.__cause__ or e.__context__
    return e
