"""Runner: ./check <PID> quick|thorough | --replay <file>

Exit codes: 0 property held on everything explored (KNOWN-FINDING lines may be
printed); 1 at least one violation not listed in known_findings.json;
2 harness error (never a verdict).
"""
import hashlib
import importlib
import json
import os
import subprocess
import sys
import time
import traceback

HOME = os.environ.get("VERIF_HOME", os.path.dirname(os.path.dirname(os.path.abspath(__file__))))
# where evidence/ and replays/ are written: /verif itself, except when a scratch tree is checked
OUT = os.environ.get("VERIF_OUT") or (HOME if os.environ.get("VERIF_REPO", "/repo") == "/repo"
                                      else os.path.join(os.environ["VERIF_REPO"], ".verif_out"))


def jdump(o):
    return json.dumps(o, sort_keys=True, default=_jdefault)


def _jdefault(o):
    import numpy as np
    if isinstance(o, (np.integer,)):
        return int(o)
    if isinstance(o, (np.floating,)):
        return float(o)
    if isinstance(o, (np.complexfloating, complex)):
        return [float(o.real), float(o.imag)]
    if isinstance(o, np.ndarray):
        if np.iscomplexobj(o):
            return {"re": o.real.tolist(), "im": o.imag.tolist()}
        return o.tolist()
    if isinstance(o, (set, frozenset, tuple)):
        return list(o)
    if isinstance(o, slice):
        return {"slice": [o.start, o.stop, o.step]}
    if isinstance(o, (np.bool_,)):
        return bool(o)
    return repr(o)


def load_known(pid):
    p = os.path.join(HOME, "known_findings.json")
    if not os.path.exists(p):
        return []
    with open(p) as f:
        data = json.load(f)
    return [e for e in data.get("findings", [])
            if e.get("property") == pid and e.get("status") == "known"]


def key_matches(entry_key, vkey):
    # every field of the listed finding must be equal in the violation's key
    return all(vkey.get(k) == v for k, v in entry_key.items())


def _through_sigpy(tb):
    while tb is not None:
        fn = tb.tb_frame.f_code.co_filename
        if "/sigpy/" in fn and "/verif/" not in fn:
            return True
        tb = tb.tb_next
    return False


_MOD = None
_SEED = 0
_TIER = "quick"
_NDET = 25


def _run_one(idx, case):
    """Executed inside a pool worker."""
    mod = _MOD
    res = _exec_case(mod, case)
    if idx < _NDET or res["viol"]:
        # determinism replay: same case again in the same process
        res2 = _exec_case(mod, case)
        if res2.get("digest") != res.get("digest") or \
                [v["oracle"] for v in res2["viol"]] != [v["oracle"] for v in res["viol"]]:
            if res["viol"] or res2["viol"]:
                # the library answered differently on an immediate re-execution in the same process AND at least one
                # of the two executions violates the property: hidden process state in the code under test, not a
                # harness problem - report the violations (of whichever execution has them)
                if not res["viol"]:
                    res["viol"] = res2["viol"]
                    res["outcome"] = res2["outcome"]
                for v in res["viol"]:
                    v["detail"] = str(v.get("detail", "")) + " [result differs between two executions in one process]"
            else:
                res["nondeterministic"] = True
        res["replayed"] = True
    return res


def _exec_case(mod, case):
    import numpy as np
    import warnings
    np.random.seed(_SEED % (2 ** 32))
    watch = getattr(mod, "GLOBAL_STATE_ORACLE", False)
    if watch:
        g0 = (dict(np.geterr()), dict(np.get_printoptions()), len(warnings.filters))
    try:
        res = mod.run_case(case, _SEED)
        if watch:
            g1 = (dict(np.geterr()), dict(np.get_printoptions()), len(warnings.filters))
            if g1 != g0:
                what = [n for n, a, b in zip(("numpy error state (np.seterr)", "numpy print options", "warnings filters"), g0, g1) if a != b]
                np.seterr(**g0[0])
                np.set_printoptions(**g0[1])
                del warnings.filters[:max(0, len(warnings.filters) - g0[2])]
                res.setdefault("viol", []).append({"oracle": "process-state-changed", "key": {"site": "process-global state", "when": ", ".join(what)},
                                                   "detail": "the calls of this case left %s changed: %s -> %s" % (
                                                       ", ".join(what), [a for a, b in zip(g0, g1) if a != b], [b for a, b in zip(g0, g1) if a != b])})
                res["outcome"] = "violation:process-state-changed" if not str(res.get("outcome", "")).startswith("violation") else res["outcome"]
    except Exception as e:
        if _through_sigpy(e.__traceback__) or any(
                _through_sigpy(x.__traceback__) for x in _chain(e)):
            msg = "".join(traceback.format_exception_only(type(e), e)).strip()
            root = _root(e)
            res = {"states": 1, "transitions": 1, "nontrivial": True,
                   "outcome": "unexpected-exception",
                   "viol": [{"oracle": "unexpected-exception",
                             "key": (mod.exc_key(case, root) if hasattr(mod, "exc_key") else
                                     {"site": case.get("kind", "?"),
                                      "when": "library raised " + type(root).__name__}),
                             "detail": msg[-600:] + " | root: " + repr(root)[:300]}]}
        else:
            audit = _type_audit(mod, case)
            if audit is None:
                raise
            res = {"states": 1, "transitions": 1, "nontrivial": True, "outcome": "returned-non-array",
                   "viol": [{"oracle": "returned-non-array",
                             "key": {"site": audit[0], "when": "called on an array"},
                             "detail": "%s applied to an array of shape %s returned a %s instead of an array (the check then failed with %s: %s)" % (
                                 audit[0], audit[1], audit[2], type(e).__name__, str(e)[:120])}]}
    res.setdefault("viol", [])
    res.setdefault("states", 1)
    res.setdefault("transitions", 1)
    res.setdefault("nontrivial", True)
    res.setdefault("outcome", "ok")
    if "digest" not in res:
        res["digest"] = hashlib.sha1(jdump(
            {k: res[k] for k in res if k not in ("digest",)}).encode()).hexdigest()[:16]
    return res


def _type_audit(mod, case):
    """A check crashed outside the library.  Before calling that a harness error, re-execute the case with Linop.__call__
    and Prox.__call__ instrumented: if the library handed back something that is not an array where an array went in,
    that is the library's doing (and the reason the check's array code fell over)."""
    import numpy as np
    try:
        from sigpy import linop as L, prox as P
    except Exception:
        return None
    found = []
    saved = (L.Linop.__call__, P.Prox.__call__)

    def wrap(orig, kind):
        def call(self, *a, **k):
            out = orig(self, *a, **k)
            arrs = [x for x in a if isinstance(x, np.ndarray)]
            if arrs and not isinstance(out, np.ndarray) and not np.isscalar(out) and not found:
                found.append(("%s %s" % (kind, type(self).__name__), list(arrs[-1].shape), type(out).__name__))
            return out
        return call
    L.Linop.__call__ = wrap(saved[0], "Linop")
    P.Prox.__call__ = wrap(saved[1], "Prox")
    try:
        try:
            mod.run_case(case, _SEED)
        except Exception:
            pass
    finally:
        L.Linop.__call__, P.Prox.__call__ = saved
    return found[0] if found else None


def _chain(e):
    out = []
    seen = set()
    while e is not None and id(e) not in seen:
        seen.add(id(e))
        out.append(e)
        e = e.__cause__ or e.__context__
    return out


def _root(e):
    return _chain(e)[-1]


def write_replay(pid, case, viol, seed, tier):
    d = os.path.join(OUT, "replays", pid)
    os.makedirs(d, exist_ok=True)
    body = {"property": pid, "oracle": viol["oracle"], "key": viol["key"],
            "case": case, "seed": seed, "tier": tier, "detail": viol.get("detail", ""),
            "python": viol.get("python", "")}
    txt = jdump(body)
    h = hashlib.sha1(txt.encode()).hexdigest()[:12]
    path = os.path.join(d, h + ".json")
    with open(path, "w") as f:
        f.write(json.dumps(json.loads(txt), indent=1, sort_keys=True))
    return path


def validate_evidence(path):
    """Validate with jsonschema from the tooling venv when it is there."""
    schema = "/root/.vp/EVIDENCE.schema.json"
    if not os.path.exists(schema):
        schema = os.path.join(HOME, "vf", "EVIDENCE.schema.json")
    code = ("import json,jsonschema,sys;"
            "jsonschema.validate(json.load(open(sys.argv[1])),json.load(open(sys.argv[2])))")
    for py in ("python3-vt", "/opt/veriftools/pyvenv/bin/python"):
        try:
            r = subprocess.run([py, "-c", code, path, schema], capture_output=True,
                               text=True, timeout=60, env={k: v for k, v in os.environ.items()
                                                           if k not in ("PYTHONPATH",)})
        except (FileNotFoundError, subprocess.TimeoutExpired):
            continue
        if r.returncode != 0:
            print("HARNESS-ERROR: evidence does not validate:", r.stderr[-400:])
            return False
        return True
    return True  # validator not available: structural self-check only


def main(argv=None):
    global _MOD, _SEED, _TIER
    argv = list(sys.argv[1:] if argv is None else argv)
    if not argv:
        print(__doc__)
        return 2
    pid = argv[0].upper()
    seed = int(os.environ.get("VERIF_SEED", "0") or 0)
    _SEED = seed
    sys.path.insert(0, HOME)
    mod = importlib.import_module("checks." + pid.lower())
    _MOD = mod

    if len(argv) >= 3 and argv[1] == "--replay":
        return replay(mod, pid, argv[2])

    tier = argv[1] if len(argv) > 1 else os.environ.get("VERIF_TIER", "quick")
    if tier not in ("quick", "thorough"):
        print("tier must be quick|thorough")
        return 2
    _TIER = tier
    t0 = time.time()
    budget = float(os.environ.get("VERIF_BUDGET_S", "900" if tier == "quick" else "7200"))
    nproc = int(os.environ.get("VERIF_NPROC", str(os.cpu_count() or 4)))
    case_timeout = float(os.environ.get(
        "VERIF_CASE_TIMEOUT", str(getattr(mod, "CASE_TIMEOUT", {"quick": 600, "thorough": 1800})[tier])))

    import numpy as np  # noqa
    import sigpy  # noqa  (imported before fork so workers share it)
    repo_file = os.path.dirname(os.path.dirname(os.path.abspath(sigpy.__file__)))
    cases = mod.gen_cases(tier, seed)
    if hasattr(mod, "warmup"):
        try:
            mod.warmup()
        except Exception:
            pass
    from vf import pool
    results, capped = pool.run_pool(_run_one, cases, nproc, case_timeout,
                                    deadline=t0 + budget, chunk=getattr(mod, "CHUNK", None))

    known = load_known(pid)
    states = transitions = traces = evals = 0
    nontrivial = set()
    outcomes = {}
    viols = []  # (idx, viol)
    harness_errors = []
    nondet = []
    replayed = 0
    unexplored = 0
    for idx, (case, res) in enumerate(zip(cases, results)):
        if res is None:
            unexplored += 1
            continue
        evals += 1
        if res.get("harness_error"):
            harness_errors.append((idx, res["harness_error"]))
            continue
        if res.get("no_return") or res.get("crash"):
            kind = "no-return" if res.get("no_return") else "crash"
            fn = getattr(mod, "no_return_key", None)
            key = fn(case) if fn else {"site": case.get("kind", "?"), "when": kind}
            viols.append((idx, {"oracle": kind, "key": key,
                                "detail": "worker killed after %ss without a result" % res.get("secs")
                                if kind == "no-return" else "worker process died"}))
            outcomes[kind] = outcomes.get(kind, 0) + 1
            states += 1
            transitions += 1
            continue
        states += res["states"]
        transitions += res["transitions"]
        traces += res.get("traces", 1)
        if res.get("replayed"):
            replayed += 1
        if res.get("nondeterministic"):
            nondet.append(idx)
        if res["nontrivial"]:
            nontrivial.add(res["digest"] if res.get("distinct_by_digest") else jdump(case))
        outcomes[res["outcome"]] = outcomes.get(res["outcome"], 0) + 1
        for v in res["viol"]:
            viols.append((idx, v))

    if harness_errors:
        print("HARNESS-ERROR in %d case(s); first:" % len(harness_errors))
        print(jdump(cases[harness_errors[0][0]])[:500])
        print(harness_errors[0][1])
        return 2
    if nondet and not viols:
        print("HARNESS-ERROR: %d case(s) gave different observations when replayed "
              "in the same process; first: %s" % (len(nondet), jdump(cases[nondet[0]])[:500]))
        return 2
    if nondet:
        # violations exist and each of them was itself re-executed; unstable observations elsewhere point at hidden
        # process state in the code under test (memoised designs, warm-start hints) - say so, but report the verdict
        print("NOTE: %d non-violating case(s) gave different observations when re-executed in the same process "
              "(hidden process state?); first: %s" % (len(nondet), jdump(cases[nondet[0]])[:300]))

    known_hits = {}
    new = []
    for idx, v in viols:
        hit = None
        for e in known:
            if key_matches(e["key"], v["key"]):
                hit = e
                break
        if hit is not None:
            known_hits.setdefault(jdump(hit["key"]), [hit, 0])[1] += 1
        else:
            new.append((idx, v))

    for k, (e, cnt) in sorted(known_hits.items()):
        print("KNOWN-FINDING: property=%s %s [%s] (%d case(s) this run)" % (
            pid, e.get("what", ""), jdump(e["key"]), cnt))

    # one replay file + VIOLATION line per distinct key (first = simplest case), capped
    printed = {}
    lines = 0
    for idx, v in new:
        k = jdump(v["key"])
        printed[k] = printed.get(k, 0) + 1
        if printed[k] > 3 or lines >= 60:
            continue
        path = write_replay(pid, cases[idx], v, seed, tier)
        print("VIOLATION property=%s replay=%s" % (pid, path))
        print("   oracle=%s key=%s %s" % (v["oracle"], k, str(v.get("detail", ""))[:300]))
        lines += 1
    if new:
        print("%d violating observation(s) in %d distinct key class(es)" % (len(new), len(printed)))

    wall = time.time() - t0
    samples = []
    step = max(1, len(cases) // 6)
    for i in range(0, len(cases), step):
        if results[i] is not None and len(samples) < 8:
            samples.append({"case": json.loads(jdump(cases[i])),
                            "outcome": results[i].get("outcome", "?")})
    ev = {
        "property_id": pid, "tier": tier, "seed": seed,
        "level": mod.LEVEL,
        "coverage": {
            "evaluations": evals,
            "distinct_nontrivial": len(nontrivial),
            "rule": mod.RULE,
            "samples": samples,
            "states": states, "transitions": transitions,
            "traces_validated_against_impl": traces,
            "exhaustive": (not capped) and unexplored == 0,
            "cases_enumerated": len(cases),
            "cases_unexplored_cap_hit": unexplored,
            "cap": ("wall-clock budget %ss fired" % budget) if capped else None,
            "bounds": mod.bounds(tier) if hasattr(mod, "bounds") else {},
            "outcome_classes": outcomes,
            "determinism_replays": replayed,
            "known_findings_matched": {k: c for k, (e, c) in known_hits.items()},
            "repo": repo_file,
        },
        "assumptions": list(getattr(mod, "ASSUMPTIONS", [])),
        "wall_s": round(wall, 2),
        "violations": len(new),
    }
    os.makedirs(os.path.join(OUT, "evidence"), exist_ok=True)
    evp = os.path.join(OUT, "evidence", pid + ".json")
    with open(evp, "w") as f:
        json.dump(ev, f, indent=1, sort_keys=True)
    ok = validate_evidence(evp)
    print("%s %s seed=%d: cases=%d states=%d transitions=%d nontrivial=%d outcomes=%s "
          "exhaustive=%s wall=%.1fs violations=%d known=%d" % (
              pid, tier, seed, evals, states, transitions, len(nontrivial),
              jdump(outcomes), ev["coverage"]["exhaustive"], wall, len(new),
              sum(c for _, c in known_hits.values())))
    if not ok:
        return 2
    return 1 if new else 0


def replay(mod, pid, path):
    with open(path) as f:
        body = json.load(f)
    global _SEED, _NDET
    _SEED = int(body.get("seed", 0))
    _NDET = 1  # run twice, compare digests
    from vf import pool
    import sigpy  # noqa
    tmo = float(os.environ.get("VERIF_CASE_TIMEOUT", "900"))
    results, _ = pool.run_pool(_run_one, [body["case"]], 1, tmo)
    res = results[0]
    if res.get("harness_error"):
        print("HARNESS-ERROR:", res["harness_error"])
        return 2
    if res.get("no_return") or res.get("crash"):
        print("VIOLATION property=%s replay=%s" % (pid, path))
        print("   oracle=no-return: the call neither returned nor raised within %ss" % tmo)
        return 1
    if res.get("nondeterministic"):
        print("HARNESS-ERROR: replay is not deterministic")
        return 2
    if not res["viol"]:
        print("replay: case passes (outcome=%s)" % res["outcome"])
        return 0
    for v in res["viol"]:
        print("VIOLATION property=%s replay=%s" % (pid, path))
        print("   oracle=%s key=%s %s" % (v["oracle"], jdump(v["key"]), str(v.get("detail", ""))[:500]))
    return 1


if __name__ == "__main__":
    sys.exit(main())
