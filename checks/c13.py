"""C13 — proximal-gradient and primal-dual solvers converge as their theory guarantees.

Alphabet: f(x) = 1/2||Ax-y||^2, g in {0, l1, l2^2, box}; A in {I, diag(1,10), real 3x2,
complex 3x2, (n+1)xn difference matrix (Nesterov's worst case)}; step alpha in
{1/L, 1/(2L)}; accelerate in {F,T}.  PDHG: same problems as f(Ax)+g(x), steps
(tau, sigma) scalars with tau sigma ||A||^2 in {1, 1/2} (balanced and unbalanced)
and array-valued diagonal steps, gamma_primal / gamma_dual in {0, >0}, start at
zero, at a generic point and exactly at a saddle point.
Histories: EVERY prefix k <= K of the update history (the harness calls update()
directly, done() is C15's subject).
Oracle: x*, F*, u* from an independent NumPy reference certified by a duality
gap; GradientMethod: monotone objective (not accelerated), gap <= ||x0-x*||^2/(2 alpha k)
resp. 2||x0-x*||^2/(alpha (k+1)^2); PDHG: saddle points are fixed, constant steps are
Fejer monotone in the step-size metric ||x||^2/tau + ||u||^2/sigma - 2Re<Ax,u> on the
pairs (x_{k-1}, u_k), every variant converges to x*; x/u are updated in place.
"""
import itertools

import numpy as np

from vf.ref import convex

PID = "C13"
LEVEL = "model_checking"
ENGINE = "E1+E2"
TECHNIQUE = ("bounded-exhaustive enumeration of small composite problems x step/option combinations; every prefix of the "
             "update history of the real solver objects checked against convergence-theory inequalities computed from a "
             "duality-gap-certified reference optimum")
LEVEL_TEXT = ("For every instance of the finite problem x option product the real GradientMethod / PrimalDualHybridGradient "
              "object is stepped one update at a time and the theory's inequalities (monotonicity, rate bounds, fixed point, "
              "Fejer monotonicity in the algorithm's own metric, convergence) are evaluated after every prefix against an "
              "independently computed and certified optimum.")
LEVEL_NOTE = ("Problems have <= 6 unknowns; horizon K = 150/400 updates for the per-prefix inequalities and a convergence "
              "horizon per variant (see bounds); inequalities carry a slack of 1e-10 relative plus the reference's certified gap.")
RULE = ("full product of matrices x regularisers x starts x step choices x options; one case = one solver run (all prefixes); "
        "non-trivial = x0 != x* (the solver has to move) ")
ASSUMPTIONS = ["reference optimum accepted only with duality gap <= 1e-10", "Fejer monotonicity uses the proximal-point metric with the cross term (DESIGN.md section 4)"]
CHUNK = 8

MATS = ["I2", "diag", "real32", "cplx32", "cplx32m", "worst6"]   # cplx32m: same operator, data whose l1 minimiser has a MID-SIZED complex entry
REGS = [None, "l1", "l2sq", "box", "boxfar"]
LAM = {"l1": 0.3, "l2sq": 0.5, "box": (-0.25, 0.4), "boxfar": (0.0, 1e12)}   # boxfar: non-negativity with a far, never active upper bound


def bounds(tier):
    return {"matrices": MATS + (["5x3 real (2)", "4x3 complex (2)", "4x4 real", "6x4 complex", "3x3 complex"] if tier == "thorough" else []),
            "g": ["none", "l1(0.3)", "l2sq(0.5)", "box(-0.25,0.4) (real data only)", "box(0,1e12) (real data only)"],
            "prefix horizon K": (150 if tier == "quick" else 400), "worst-case instance": "difference matrix with 100 unknowns, K = 2000 prefixes, g in {none, l2sq}",
            "GradientMethod": {"alpha": ["1/L", "1/(2L)"], "accelerate": [False, True], "x0": ["zero", "generic"]},
            "PDHG": {"steps": ["balanced c=1", "balanced c=1/sqrt2", "unbalanced tau=1/||A||^2,sigma=1", "diagonal arrays"],
                     "gamma": ["none", "primal (g=l2sq)", "dual"], "start": ["zero", "generic", "saddle"],
                     "convergence horizon": 4000 if tier == "quick" else 20000}}


def _is_cplx(name):
    return name in ("cplx32", "cplx32m") or (name.startswith("rand") and name[6] == "c")


def matrix(name, seed):
    r = np.random.default_rng(77 + seed)
    if name == "I2":
        return np.eye(2)
    if name == "diag":
        return np.diag([1.0, 10.0])
    if name == "real32":
        return r.standard_normal((3, 2))
    if name in ("cplx32", "cplx32m"):
        return r.standard_normal((3, 2)) + 1j * r.standard_normal((3, 2))
    if name.startswith("rand"):        # thorough tier: "rand<m><n><r|c><k>" - k-th random m x n real/complex matrix
        m_, n_, kind_, k_ = int(name[4]), int(name[5]), name[6], int(name[7:])
        r2 = np.random.default_rng(1000 + 97 * k_ + 10 * m_ + n_ + seed)
        M_ = r2.standard_normal((m_, n_))
        return M_ + 1j * r2.standard_normal((m_, n_)) if kind_ == "c" else M_
    n = 100 if name == "worst100" else 6
    A = np.zeros((n + 1, n))
    for i in range(n):
        A[i, i] = 1.0
        A[i + 1, i] = -1.0
    return A


def problem(case, seed):
    A = matrix(case["A"], seed).astype(complex)
    m, n = A.shape
    r = np.random.default_rng(5 + seed)
    xt = np.array(([1.0, 0.05, -0.6, 0.0, 0.3, -0.02] * (n // 6 + 1))[:n], dtype=complex)
    if case["A"] == "cplx32m":
        xt = np.array([0.8, 0.09], dtype=complex)     # second entry survives the shrinkage with a magnitude between t and sqrt(t)
    if _is_cplx(case["A"]):
        xt = xt * (1 + 0.5j)
    y = A @ xt + 0.05 * (r.standard_normal(m) + (1j * r.standard_normal(m) if _is_cplx(case["A"]) else 0))
    if case["A"] in ("worst6", "worst100"):
        y = np.zeros(m, complex)
        y[0] = 1.0
    kind = case["g"]
    par = LAM.get(kind)
    if kind == "boxfar":
        kind = "box"
    return A, y, kind, par


MATS_T = MATS + ["rand53r0", "rand53r1", "rand43c0", "rand43c1", "rand44r0", "rand64c0", "rand33c0"]   # full column rank (a unique minimiser)


def gen_cases(tier, seed):
    cases = []
    for A in (MATS_T if tier == "thorough" else MATS):
        for g in REGS:
            if g in ("box", "boxfar") and _is_cplx(A):
                continue
            for x0 in ("zero", "generic"):
                for alpha in ("1/L", "1/2L"):
                    for acc in (False, True):
                        cases.append(dict(kind="gm", A=A, g=g, x0=x0, alpha=alpha, acc=acc, tier=tier))
    # the caller's x / u as non-contiguous views
    for A in ("real32", "cplx32"):
        for g in (None, "l1"):
            for acc in (False, True):
                cases.append(dict(kind="gm", A=A, g=g, x0="generic", alpha="1/L", acc=acc, tier=tier, xlayout="strided"))
            for gam in ("none", "dual"):
                cases.append(dict(kind="pdhg", A=A, g=g, start="generic", steps="diag", gamma=gam, tier=tier, xlayout="strided"))
    # callbacks that return arrays they do not own: gradf(x) = x (its own argument, f = 1/2||x||^2) and gradf(x) = c (one
    # persistent array, f = <c, x> on a box).  A solver that scales the callback's result in place corrupts its iterate
    # or the caller's c.
    for alias in ("self", "const"):
        for g in ((None, "l1", "box") if alias == "self" else ("box",)):
            for alpha in ("1/L", "1/2L"):
                for acc in (False, True):
                    cases.append(dict(kind="gm-alias", alias=alias, g=g, alpha=alpha, acc=acc, tier=tier))
    # Nesterov's worst-case quadratic in 100 unknowns, 2000 prefixes: here the O(1/k^2) bound is nearly tight, so a
    # momentum sequence that is only slightly off (e.g. t_old/t instead of (t_old-1)/t) violates it
    for g in (None, "l2sq"):
        for acc in (False, True):
            cases.append(dict(kind="gm", A="worst100", g=g, x0="zero", alpha="1/L", acc=acc, tier=tier, K=2000))
    for A in (MATS_T if tier == "thorough" else MATS):
        for g in REGS:
            if g in ("box", "boxfar") and _is_cplx(A):
                continue
            for start in ("zero", "generic", "saddle"):
                for steps in ("bal1", "bal05", "unbal", "diag"):
                    for gam in ("none", "primal", "dual"):
                        if gam == "primal" and g != "l2sq":
                            continue
                        cases.append(dict(kind="pdhg", A=A, g=g, start=start, steps=steps, gamma=gam, tier=tier))
    # the dual prox given through the library's conjugation wrapper (prox of f* as Conj(prox of f)) instead of in closed
    # form: the same operator, another code path, and the one the LinearLeastSquares / TV apps use
    for A in ("diag", "real32", "cplx32"):
        for g in (None, "l1", "l2sq"):
            for start in ("generic", "saddle"):
                for steps in ("bal05", "unbal", "diag"):
                    cases.append(dict(kind="pdhg", A=A, g=g, start=start, steps=steps, gamma="none", tier=tier, fc="conj"))
    return cases


def reference(case, seed):
    A, y, kind, par = problem(case, seed)
    x, w, P, D, gap = convex.solve_polished(A, y, kind, par, 0.0, None, gap_tol=1e-13)
    if not gap <= 1e-10 * max(1.0, abs(P)):
        raise RuntimeError("reference optimum not certified (gap %g)" % gap)
    return A, y, kind, par, x, P, max(gap, 0.0)


def make_prox(kind, par, shape):
    import sigpy as sp
    if kind is None:
        return sp.prox.NoOp(shape)
    if kind == "l1":
        return sp.prox.L1Reg(shape, par)
    if kind == "l2sq":
        return sp.prox.L2Reg(shape, par)
    return sp.prox.BoxConstraint(shape, par[0], par[1])


def run_case(case, seed):
    if case["kind"] == "gm":
        return run_gm(case, seed)
    if case["kind"] == "gm-alias":
        return run_gm_alias(case, seed)
    return run_pdhg(case, seed)


def run_gm_alias(case, seed):
    import sigpy as sp
    viol = []
    kind = case["g"]
    par = LAM.get(kind)
    when = "accelerate=%s, alpha=%s, g=%s, gradf returns %s" % (case["acc"], case["alpha"], kind,
                                                                "its argument" if case["alias"] == "self" else "a persistent array")

    def V(oracle, detail):
        viol.append(dict(oracle=oracle, key=dict(site="alg.GradientMethod", when=when), detail=detail + " | " + str(case)))
    n = 3
    K = 60
    if case["alias"] == "self":
        L = 1.0
        gradf = lambda v: v  # noqa  (f = 1/2 ||x||^2)
        fval = lambda v: 0.5 * float(np.sum(np.abs(v) ** 2))  # noqa
        xs = np.zeros(n)
        c = None
    else:
        L = 1.0    # f is linear: any step is admissible; use 1/L = 1 and 1/2
        c = np.array([0.3, -0.2, 0.5])
        c0 = c.copy()
        gradf = lambda v: c  # noqa
        fval = lambda v: float(np.dot(c0, v))  # noqa
        xs = np.where(c0 > 0, par[0], par[1]).astype(float)
    alpha = (1.0 if case["alpha"] == "1/L" else 0.5) / L
    x0 = np.array([0.35, -0.2, 0.1])
    x = x0.copy()
    F = lambda v: fval(v) + convex.g_val(kind, par, np.asarray(v, complex), 1e-12)  # noqa
    Fs = F(xs)
    alg = sp.alg.GradientMethod(gradf, x, alpha, proxg=None if kind is None else make_prox(kind, par, [n]),
                                accelerate=case["acc"], max_iter=K, tol=0)
    R2 = float(np.sum((x0 - xs) ** 2))
    Fprev = F(x0)
    slack = 1e-10
    for k in range(1, K + 1):
        alg.update()
        Fk = F(x)
        if not np.isfinite(Fk):
            V("finite", "objective not finite after %d updates" % k)
            break
        if not case["acc"] and np.isfinite(Fprev) and not Fk <= Fprev + slack:
            V("monotone", "objective rose from %.12g to %.12g at update %d" % (Fprev, Fk, k))
            break
        bound = R2 / (2 * alpha * k) if not case["acc"] else 2 * R2 / (alpha * (k + 1) ** 2)
        if not Fk - Fs <= bound + slack:
            V("rate-bound", "F(x_%d) - F* = %.6g exceeds the bound %.6g" % (k, Fk - Fs, bound))
            break
        Fprev = Fk
    return dict(states=K + 1, transitions=K, traces=1, nontrivial=True,
                outcome="ok" if not viol else "violation:" + viol[0]["oracle"], viol=viol)


def run_gm(case, seed):
    import sigpy as sp
    A, y, kind, par, xs, Fs, gap = reference(case, seed)
    real = not _is_cplx(case["A"])
    n = A.shape[1]
    K = case.get("K") or (150 if case["tier"] == "quick" else 400)
    viol = []
    when = "accelerate=%s, alpha=%s, g=%s" % (case["acc"], case["alpha"], kind)

    def V(oracle, detail):
        viol.append(dict(oracle=oracle, key=dict(site="alg.GradientMethod", when=when), detail=detail + " | " + str(case)))
    L = np.linalg.norm(A, 2) ** 2
    alpha = 1.0 / L if case["alpha"] == "1/L" else 0.5 / L
    dt = np.float64 if real else np.complex128
    Ad = A.real if real else A
    yd = y.real if real else y
    x0 = np.zeros(n, dt) if case["x0"] == "zero" else (np.cos(np.arange(n) + 1.0) * 0.8 + (0 if real else 0.3j)).astype(dt)
    if case.get("xlayout"):
        buf = np.zeros(2 * n, dt)
        x = buf[1::2]
        x[:] = x0
    else:
        x = x0.copy()
    F = lambda v: convex.primal(A, y, kind, par, None, 0.0, None, np.asarray(v, complex), feas_tol=1e-12)  # noqa
    gradf = lambda v: Ad.conj().T @ (Ad @ v - yd)  # noqa
    alg = sp.alg.GradientMethod(gradf, x, alpha, proxg=None if kind is None else make_prox(kind, par, [n]),
                                accelerate=case["acc"], max_iter=K, tol=0)
    R2 = float(np.sum(np.abs(x0 - xs) ** 2))
    F0 = F(x0)
    scale = max(1.0, abs(Fs), abs(F0) if np.isfinite(F0) else 0.0)
    slack = 1e-10 * scale + gap
    Fprev = F0
    for k in range(1, K + 1):
        alg.update()
        if alg.x is not x:
            V("in-place", "alg.x is not the caller's array after %d updates" % k)
            break
        Fk = F(x)
        if not np.isfinite(Fk):
            V("finite", "objective not finite after %d updates (x=%s)" % (k, x))
            break
        if not case["acc"] and np.isfinite(Fprev) and not Fk <= Fprev + slack:
            V("monotone", "objective rose from %.12g to %.12g at update %d" % (Fprev, Fk, k))
            break
        bound = R2 / (2 * alpha * k) if not case["acc"] else 2 * R2 / (alpha * (k + 1) ** 2)
        if not Fk - Fs <= bound + slack:
            V("rate-bound", "F(x_%d) - F* = %.6g exceeds the bound %.6g" % (k, Fk - Fs, bound))
            break
        if Fk < Fs - slack - 1e-9 * scale:
            V("below-optimum", "F(x_%d) = %.12g is below the certified optimum %.12g (infeasible iterate?)" % (k, Fk, Fs))
            break
        Fprev = Fk
    return dict(states=K + 1, transitions=K, traces=1, nontrivial=R2 > 1e-12,
                outcome="ok" if not viol else "violation:" + viol[0]["oracle"], viol=viol)


def run_pdhg(case, seed):
    import sigpy as sp
    A, y, kind, par, xs, Fs, gap = reference(case, seed)
    real = not _is_cplx(case["A"])
    m, n = A.shape
    K = 150 if case["tier"] == "quick" else 400
    KC = 4000 if case["tier"] == "quick" else 20000
    viol = []
    when = "steps=%s, gamma=%s, g=%s%s" % (case["steps"], case["gamma"], kind, ", dual prox via Conj" if case.get("fc") == "conj" else "")

    def V(oracle, detail):
        viol.append(dict(oracle=oracle, key=dict(site="alg.PrimalDualHybridGradient", when=when), detail=detail + " | " + str(case)))
    dt = np.float64 if real else np.complex128
    Ad = (A.real if real else A).astype(dt)
    yd = (y.real if real else y).astype(dt)
    us = (A @ xs - y)
    nrm = np.linalg.norm(A, 2)
    if case["steps"] == "bal1":
        tau, sigma = 1.0 / nrm, 1.0 / nrm
    elif case["steps"] == "bal05":
        tau, sigma = np.sqrt(0.5) / nrm, np.sqrt(0.5) / nrm
    elif case["steps"] == "unbal":
        tau, sigma = 1.0 / nrm ** 2, 1.0
    else:
        tau = 1.0 / np.abs(A).sum(axis=0)
        sigma = 1.0 / np.abs(A).sum(axis=1)
    if case["start"] == "zero":
        x0, u0 = np.zeros(n, dt), np.zeros(m, dt)
    elif case["start"] == "generic":
        x0 = (np.cos(np.arange(n) + 1.0) * 0.8 + (0 if real else 0.3j)).astype(dt)
        u0 = (np.sin(np.arange(m) + 0.5) * 0.5 + (0 if real else -0.2j)).astype(dt)
    else:
        x0 = (xs.real if real else xs).astype(dt)
        u0 = (us.real if real else us).astype(dt)
    if case.get("xlayout"):
        bx, bu = np.zeros((n, 2), dt), np.zeros(2 * m, dt)
        x, u = bx[:, 0], bu[::2]
        x[:] = x0
        u[:] = u0
    else:
        x, u = x0.copy(), u0.copy()
    gp = par if (case["gamma"] == "primal") else 0
    gd = 1.0 if case["gamma"] == "dual" else 0
    tau_arg = np.array(tau, dtype=float) if np.ndim(tau) else float(tau)
    sig_arg = np.array(sigma, dtype=float) if np.ndim(sigma) else float(sigma)
    alg = sp.alg.PrimalDualHybridGradient(
        (sp.prox.Conj(sp.prox.L2Reg([m], 1, y=yd)) if case.get("fc") == "conj" else sp.prox.L2Reg([m], 1, y=-yd)), make_prox(kind, par, [n]),
        lambda v: Ad @ v, lambda v: Ad.conj().T @ v, x, u, tau_arg, sig_arg,
        gamma_primal=gp, gamma_dual=gd, max_iter=KC, tol=0)
    tv = np.broadcast_to(np.asarray(tau, float), (n,))
    sv = np.broadcast_to(np.asarray(sigma, float), (m,))

    def dM(xa, ua):
        dx, du = xa - xs, ua - us
        return float(np.sum(np.abs(dx) ** 2 / tv) + np.sum(np.abs(du) ** 2 / sv) - 2 * np.real(np.vdot(A @ dx, du)))
    scale_x = max(1.0, np.linalg.norm(xs))
    x_prev = x.copy()
    d_prev = None
    states = 1
    k = 0
    const_steps = case["gamma"] == "none"
    for k in range(1, K + 1):
        alg.update()
        states += 1
        if alg.x is not x or alg.u is not u:
            V("in-place", "alg.x / alg.u are not the caller's arrays after %d updates" % k)
            break
        if not (np.all(np.isfinite(x)) and np.all(np.isfinite(u))):
            V("finite", "iterates not finite after %d updates" % k)
            break
        if case["start"] == "saddle" and k <= 5:
            mv = max(np.linalg.norm(x - xs) / scale_x, np.linalg.norm(u - us) / max(1.0, np.linalg.norm(us)))
            if not mv <= 1e-6:
                V("saddle-fixed", "started at a saddle point, moved by %.3g after %d update(s)" % (mv, k))
                break
        if const_steps:
            d = dM(x_prev, u)
            if d_prev is not None and not d <= d_prev * (1 + 1e-9) + 1e-12 * max(1.0, d_prev) + 1e-9 * gap:
                V("fejer-monotone", "step-size-weighted distance to the saddle point rose from %.12g to %.12g at update %d" % (d_prev, d, k))
                break
            d_prev = d
        x_prev = x.copy()
    # convergence at the horizon (every variant).  Constant steps converge linearly on these small problems
    # (1e-6 reached well inside the horizon on the pinned tree); the strong-convexity accelerations only guarantee
    # ||x_N - x*|| = O(1/N), so they are required to be below 1e-3 at N=4000 (2e-4 at N=20000; 5x the pinned-tree
    # worst case) and to keep decreasing between N/4 and N.
    if not viol:
        e0 = np.linalg.norm(x0 - xs) / scale_x
        kk = k
        e_quarter = None
        target = 1e-6
        while kk < KC:
            alg.update()
            kk += 1
            if kk == KC // 4:
                e_quarter = np.linalg.norm(x - xs) / scale_x
            if kk % 200 == 0 and np.linalg.norm(x - xs) / scale_x <= target:
                break
        ef = np.linalg.norm(x - xs) / scale_x
        states += 1
        if not np.isfinite(ef):
            V("finite", "iterate not finite after %d updates" % kk)
        elif const_steps:
            if not ef <= 1e-6:
                V("convergence", "||x_K - x*|| / max(1,||x*||) = %.3g after K=%d updates (start %.3g)" % (ef, kk, e0))
        else:
            lim = 1e-3 if KC <= 4000 else 2e-4
            if not ef <= lim:
                V("convergence", "accelerated variant: ||x_K - x*|| / max(1,||x*||) = %.3g > %.3g after K=%d updates" % (ef, lim, kk))
            elif ef > 1e-6 and e_quarter is not None and not ef <= 0.6 * e_quarter + 1e-6:
                V("convergence", "accelerated variant stalls: error %.3g at K/4, %.3g at K=%d" % (e_quarter, ef, kk))
        k = kk
    nontrivial = case["start"] != "saddle"
    return dict(states=states, transitions=k, traces=1, nontrivial=bool(nontrivial),
                outcome="ok" if not viol else "violation:" + viol[0]["oracle"], viol=viol)
