"""Optimality certificates for proximal operators (no sigpy import).

x = prox_{alpha g}(y)  iff  v := (y - x)/alpha  is a subgradient of g at x.
Each function below returns a non-negative "defect" of the statement
``v in dg(x)`` (0 = certificate holds; compared against a tolerance by the
caller).  Complex vectors are treated as real vector spaces with the inner
product Re<a, b>, which is what the library's objective 1/2||x-y||^2 uses.
"""
import numpy as np


def _absmax(a):
    a = np.asarray(a)
    return float(np.abs(a).max()) if a.size else 0.0


class G:
    def defect(self, x, v):
        raise NotImplementedError


class Zero(G):
    def defect(self, x, v):
        return _absmax(v)


class L1(G):
    def __init__(self, lam):
        self.lam = lam

    def defect(self, x, v):
        x, v = np.asarray(x), np.asarray(v)
        nz = np.abs(x) > 1e-9
        d = 0.0
        if nz.any():
            d = max(d, _absmax(v[nz] - self.lam * x[nz] / np.abs(x[nz])))
        if (~nz).any():
            d = max(d, float(np.maximum(np.abs(v[~nz]) - self.lam, 0).max()))
        return d


class L2Sq(G):
    """lam/2 ||x - z||^2 + h(x)"""

    def __init__(self, lam, z=None, h=None):
        self.lam, self.z, self.h = lam, z, h or Zero()

    def defect(self, x, v):
        z = 0 if self.z is None else self.z
        return self.h.defect(x, v - self.lam * (x - z))


class L2Ball(G):
    def __init__(self, eps, z=0, axes=None):
        self.eps, self.z, self.axes = eps, z, axes

    def defect(self, x, v):
        x = np.asarray(x)
        r = x - self.z
        nd = r.ndim
        ax = tuple(range(nd)) if self.axes is None else tuple(sorted(a % nd for a in self.axes))
        nr = np.sqrt(np.sum(np.abs(r) ** 2, axis=ax, keepdims=True))
        nv = np.sqrt(np.sum(np.abs(v) ** 2, axis=ax, keepdims=True))
        ip = np.sum(np.real(np.conj(r) * v), axis=ax, keepdims=True)
        d = float(np.maximum(nr - self.eps, 0).max())                    # feasibility
        interior = nr < self.eps - 1e-9
        d = max(d, float((nv * interior).max()))                           # t = 0 in the interior
        d = max(d, float(np.maximum(nv * nr - ip, 0).max()))              # v = t r, t >= 0 (Cauchy-Schwarz equality)
        return d


class LInfBall(G):
    def __init__(self, eps, b=None):
        self.eps, self.b = eps, b

    def defect(self, x, v):
        r = np.asarray(x) - (0 if self.b is None else self.b)
        v = np.asarray(v)
        a = np.abs(r)
        d = float(np.maximum(a - self.eps, 0).max())
        interior = a < self.eps - 1e-9
        d = max(d, float((np.abs(v) * interior).max()))
        d = max(d, float(np.maximum(np.abs(v) * a - np.real(np.conj(r) * v), 0).max()))
        return d


class L1Ball(G):
    def __init__(self, eps):
        self.eps = eps

    def defect(self, x, v):
        x, v = np.asarray(x).ravel(), np.asarray(v).ravel()
        n1 = float(np.abs(x).sum())
        d = max(n1 - self.eps, 0.0)
        if n1 < self.eps - 1e-9:
            return max(d, _absmax(v))
        nz = np.abs(x) > 1e-9
        if not nz.any():
            return d  # x = 0 on the boundary means eps = 0: every v is normal
        t = float(np.abs(v[nz]).max())
        d = max(d, _absmax(v[nz] - t * x[nz] / np.abs(x[nz])))
        if (~nz).any():
            d = max(d, float(np.maximum(np.abs(v[~nz]) - t, 0).max()))
        return d


class Box(G):
    def __init__(self, lo, hi):
        self.lo, self.hi = lo, hi

    def defect(self, x, v):
        x, v = np.real(np.asarray(x)), np.asarray(v)
        lo = np.broadcast_to(self.lo, x.shape)
        hi = np.broadcast_to(self.hi, x.shape)
        d = float(max(np.maximum(lo - x, 0).max(), np.maximum(x - hi, 0).max(), _absmax(np.imag(v))))
        v = np.real(v)
        at_lo = np.abs(x - lo) <= 1e-9
        at_hi = np.abs(x - hi) <= 1e-9
        inter = ~(at_lo | at_hi)
        d = max(d, float((np.abs(v) * inter).max()))
        d = max(d, float(np.maximum(v * (at_lo & ~at_hi), 0).max()))      # v <= 0 at the lower bound
        d = max(d, float(np.maximum(-v * (at_hi & ~at_lo), 0).max()))     # v >= 0 at the upper bound
        return d


class Psd(G):
    def defect(self, x, v):
        x, v = np.asarray(x), np.asarray(v)
        d = _absmax(x - x.conj().T)
        xh = (x + x.conj().T) / 2
        w = np.linalg.eigvalsh(xh)
        d = max(d, float(max(-w.min(), 0)))
        vh = (v + v.conj().T) / 2       # only the Hermitian part of v pairs with Hermitian directions
        wv = np.linalg.eigvalsh(vh)
        d = max(d, float(max(wv.max(), 0)))                                # -herm(v) is PSD
        d = max(d, abs(float(np.real(np.trace(xh @ vh)))))                 # complementarity
        return d


class ConjOf(G):
    """g*: v in dg*(x)  <=>  x in dg(v)."""

    def __init__(self, g):
        self.g = g

    def defect(self, x, v):
        return self.g.defect(v, x)


class StackOf(G):
    def __init__(self, gs, shapes):
        self.gs, self.shapes = gs, shapes

    def defect(self, x, v):
        x, v = np.asarray(x).ravel(), np.asarray(v).ravel()
        d, off = 0.0, 0
        for g, s in zip(self.gs, self.shapes):
            n = int(np.prod(s))
            d = max(d, g.defect(x[off:off + n].reshape(s), v[off:off + n].reshape(s)))
            off += n
        return d


class Transported(G):
    """g(Ax) with A unitary (dense matrix M acting on the flattened vector)."""

    def __init__(self, g, M, ishape, oshape):
        self.g, self.M, self.ishape, self.oshape = g, M, ishape, oshape

    def defect(self, x, v):
        Ax = (self.M @ np.asarray(x).ravel()).reshape(self.oshape)
        Av = (self.M @ np.asarray(v).ravel()).reshape(self.oshape)
        return self.g.defect(Ax, Av)
