"""C20 — trapezoid gradient designers meet area, amplitude and slew limits.

Alphabet: log-grids area in 1e-6..1 (13 points), gmax in 0.1..10 (5), dgdt in 1e2..1e5 (7),
dt in 1e-6..1e-4 (5), PLUS for every (gmax, dgdt, dt) the areas at, one ulp below and one ulp
above the triangle/trapezoid switch and the ceil-rounding boundaries; spokes: all location sets
of 1-3 points from {0, +-5, +-20}^2.
Invariants: first and last sample 0; sum(trap) dt == area (1e-9 rel.; for min_trap_grad the sum
over the flat top); max|trap| <= gmax (1+1e-9); max|diff trap|/dt <= dgdt (1+1e-9); returned
ramp count consistent with the waveform; spokes: per-axis limits over the whole assembled
waveform and per-segment areas x 4257 equal the requested k-space increments.
"""
import itertools

import numpy as np

PID = "C20"
LEVEL = "exploration"
ENGINE = "E1"
TECHNIQUE = ("bounded-exhaustive enumeration of a parameter grid plus regime-boundary points on the real designers; waveform "
             "invariants (end points, area, amplitude, slew) evaluated on every returned waveform")
LEVEL_TEXT = ("Every grid point, every triangle/trapezoid regime boundary (+-1 ulp) and every ceil-rounding boundary of the "
              "finite parameter lattice is run through the real designers and the returned waveform is checked sample by sample; "
              "the parameter space is continuous, so the verdict is bounded-exhaustive over the lattice only.")
LEVEL_NOTE = "Grid points whose waveform would exceed 2e5 (quick) / 2e6 (thorough) samples are skipped and counted."
RULE = ("full product of the log-grids plus boundary areas per (gmax, dgdt, dt); spokes: every ordered set of 1-3 distinct locations; "
        "non-trivial = a waveform with >= 3 samples was returned")
ASSUMPTIONS = ["relative tolerance 1e-9 on area, amplitude and slew"]
CHUNK = 64


def bounds(tier):
    T_ = tier == "thorough"
    return {"area": "%d log points 1e-6..1" % (25 if T_ else 13), "gmax": "%d log points 0.1..10" % (9 if T_ else 5),
            "dgdt": "%d log points 1e2..1e5" % (13 if T_ else 7), "dt": "%d log points 1e-6..1e-4" % (9 if T_ else 5),
            "boundaries": "triangle/trapezoid switch area (ramppts*dt*gmax) and +-1 ulp; areas where ceil() arguments are integers, +-1 ulp; min_trap_grad: area = dgdt*dt^2/2 * {1/2, 1, 2}",
            "max samples": 2e5 if tier == "quick" else 2e6,
            "ramp lengths": "every ramp length 1..%d in both regimes (2 flat-top lengths), 2 (dgdt, dt) pairs" % (3000 if tier == "thorough" else 420),
            "pins": "dz_pins: tb {4,8} x slice separation {0.5,2,5} x thickness {0.2,0.5} x g_max {0.25,0.5,2,4} x slew {5e3,1.8e4} x dt {4e-6,1e-5}",
            "stspk": "1-5 spokes x 4 hardware settings x 4 (tbw, slice thickness) on an 8x8 mask with 2 coils",
            "spokes": "ordered location sets of 1-3 distinct points from {0,+-5,+-20}^2 and from {0,+-1,+-2.5}^2 (quick: 1-2 points + a thinned set of triples), 3 hardware settings"}


def gen_cases(tier, seed):
    T = tier == "thorough"
    cap = 2e6 if T else 2e5
    cases = []
    areas = np.logspace(-6, 0, 25 if T else 13)
    gmaxs = np.logspace(-1, 1, 9 if T else 5)
    dgdts = np.logspace(2, 5, 13 if T else 7)
    dts = np.logspace(-6, -4, 9 if T else 5)
    skipped = 0
    for gmax, dgdt, dt in itertools.product(gmaxs, dgdts, dts):
        pts = [float(a) for a in areas]
        r = int(np.ceil(gmax / dgdt / dt))
        sw = r * dt * gmax
        for v in (sw, np.nextafter(sw, 0), np.nextafter(sw, 10)):
            if 1e-6 <= v <= 1:
                pts.append(float(v))
        # ceil boundaries of the triangle ramp count: sqrt(area*dgdt)/dgdt/dt integer  <=> area = (k dt)^2 dgdt
        for k in (1, 2, 3, 10):
            v = (k * dt) ** 2 * dgdt
            for u in (v, np.nextafter(v, 0), np.nextafter(v, 10)):
                if 1e-6 <= u <= 1:
                    pts.append(float(u))
        # min_trap_grad zero-length flat-top regime: area < dgdt dt^2 / 2
        for f in (0.5, 1.0, 2.0):
            v = f * dgdt * dt * dt / 2
            if 1e-6 <= v <= 1:
                pts.append(float(v))
        for area in pts:
            n_est = area / (gmax * dt) + 2 * gmax / (dgdt * dt) + 2 * np.sqrt(area / dgdt) / dt
            if n_est > cap:
                skipped += 1
                continue
            cases.append(dict(kind="trap", area=area, gmax=float(gmax), dgdt=float(dgdt), dt=float(dt)))
    # every ramp length: the sample counts are ceil()s of real quotients, so the log grid above visits only a few dozen
    # distinct ramp lengths; here each r = 1..R is produced on purpose, in the trapezoid regime (gmax chosen so that
    # ceil(gmax/dgdt/dt) = r, with a short and a long flat top) and in the triangle regime (area chosen so that
    # ceil(sqrt(area dgdt)/dgdt/dt) = r)
    R = 3000 if T else 420
    for dgdt, dt in ((1e4, 1e-5), (15000.0, 4e-6)):
        for r in range(1, R + 1):
            gmax = (r - 0.5) * dgdt * dt
            tri = r * dt * gmax
            for area in (1.5 * tri, tri + 7.3 * gmax * dt):
                cases.append(dict(kind="trap", area=float(area), gmax=float(gmax), dgdt=dgdt, dt=dt, sweep="ramp"))
            area = ((r - 0.5) * dt) ** 2 * dgdt
            cases.append(dict(kind="trap", area=float(area), gmax=float(10 * r * dgdt * dt), dgdt=dgdt, dt=dt, sweep="ramp"))
    locs = [(x, y) for x in (0, 5, -5, 20, -20) for y in (0, 5, -5, 20, -20)]
    sets = [[p] for p in locs] + [list(p) for p in itertools.permutations(locs, 2)]
    trip = [list(p) for p in itertools.permutations(locs, 3)]
    sets += trip if T else trip[::230]
    locs2 = [(x, y) for x in (0, 1, -1, 2.5, -2.5) for y in (0, 1, -1, 2.5, -2.5)]
    sets2 = [[p] for p in locs2] + [list(p) for p in itertools.permutations(locs2, 2)]
    trip2 = [list(p) for p in itertools.permutations(locs2, 3)]
    sets2 += trip2 if T else trip2[::97]
    for hw in ((4.0, 15000.0, 4e-6), (1.0, 5000.0, 1e-5), (4.0, 2000.0, 4e-6)):
        for s in sets + sets2:
            cases.append(dict(kind="spokes", k=[list(p) for p in s], gmax=hw[0], dgdt=hw[1], dt=hw[2]))
    # the spokes designer that assembles such a gradient itself (ptx.stspk): 1-5 spokes chosen greedily on a small mask
    for ns in (1, 2, 3, 4, 5):
        for hw in ((2.0, 18000.0, 4e-6), (4.0, 15000.0, 4e-6), (1.0, 5000.0, 1e-5), (4.0, 2000.0, 4e-6)):
            for tbw, sl in ((4, 5.0), (4, 3.0), (2, 5.0), (8, 10.0)):
                cases.append(dict(kind="stspk", n_spokes=ns, gmax=hw[0], dgdt=hw[1], dt=hw[2], tbw=tbw, sl_thick=sl))
    # a further assembler built on trap_grad: the PINS multiband designer concatenates trap_grad blips into its gz waveform
    for tb, sep, thick, gmax, slew, dt in itertools.product((4, 8), (0.5, 2.0, 5.0), (0.2, 0.5), (0.25, 0.5, 2.0, 4.0), (5000.0, 18000.0), (4e-6, 1e-5)):
        if thick < sep:
            cases.append(dict(kind="pins", tb=tb, sl_sep=sep, sl_thick=thick, gmax=gmax, dgdt=slew, dt=dt))
    cases.append(dict(kind="meta", skipped=skipped))
    return cases


def check_wave(name, trap, ramppts, area, gmax, dgdt, dt, V, flat_only=False):
    t = np.asarray(trap, dtype=float)
    if t.ndim == 2 and t.shape[0] == 1:
        t = t[0]
    if t.ndim != 1 or t.size < 3:
        V("waveform-shape", "%s returned an array of shape %s" % (name, np.asarray(trap).shape))
        return False
    if not np.all(np.isfinite(t)):
        V("finite", "%s returned non-finite samples" % name)
        return False
    tol = 1e-9
    if t[0] != 0 or t[-1] != 0:
        V("end-points", "%s: first/last sample %.3g / %.3g" % (name, t[0], t[-1]))
    if flat_only:
        r = int(ramppts)
        if r < 1 or 2 * r + 2 > t.size + 1:
            V("ramp-count", "%s: ramppts=%s inconsistent with %d samples" % (name, ramppts, t.size))
            return True
        flat = t[r + 1:t.size - r - 1]
        got = float(np.sum(flat) * dt)
    else:
        got = float(np.sum(t) * dt)
    if not abs(got - area) <= tol * abs(area):
        V("area", "%s: %s integrates to %.12g, requested %.12g" % (name, "flat top" if flat_only else "waveform", got, area))
    mx = float(np.abs(t).max())
    if not mx <= gmax * (1 + tol):
        V("amplitude", "%s: max |g| = %.9g > gmax = %.9g" % (name, mx, gmax))
    sl = float(np.abs(np.diff(t)).max() / dt)
    if not sl <= dgdt * (1 + tol):
        V("slew", "%s: max |dg/dt| = %.9g > %.9g" % (name, sl, dgdt))
    r = int(ramppts)
    if not (1 <= r and 2 * (r + 1) <= t.size):
        V("ramp-count", "%s: ramppts=%s inconsistent with %d samples" % (name, ramppts, t.size))
    else:
        up = np.diff(t[:r + 1])
        if not (np.all(up >= -1e-15 * max(mx, 1e-300))):
            V("ramp-count", "%s: first %d samples are not a rising ramp" % (name, r + 1))
    return True


def run_case(case, seed):
    from sigpy.mri.rf import trajgrad as tg
    viol = []
    if case["kind"] == "meta":
        return dict(states=1, transitions=1, nontrivial=False, outcome="grid points skipped for size: %d" % case["skipped"], viol=[])
    if case["kind"] == "spokes":
        return run_spokes(case, viol)
    if case["kind"] == "stspk":
        return run_stspk(case, viol)
    if case["kind"] == "pins":
        return run_pins(case, viol)
    area, gmax, dgdt, dt = case["area"], case["gmax"], case["dgdt"], case["dt"]
    r = int(np.ceil(gmax / dgdt / dt))
    regime = "triangle" if r * dt * gmax > area else "trapezoid"

    def V1(oracle, detail):
        viol.append(dict(oracle=oracle, key=dict(site="mri.rf.trajgrad.trap_grad", when=regime), detail=detail + " | " + str(case)))

    def V2(oracle, detail):
        w = "area < dgdt*dt^2/2 (flat top shorter than one sample)" if area < dgdt * dt * dt / 2 else "regular"
        viol.append(dict(oracle=oracle, key=dict(site="mri.rf.trajgrad.min_trap_grad", when=w), detail=detail + " | " + str(case)))
    ok = False
    try:
        first, _ = tg.trap_grad(area, gmax, dgdt, dt)
        if isinstance(first, np.ndarray) and first.flags.writeable:
            first *= -1   # e.g. a caller building the negative lobe in place; the next design must not be affected
        trap, rp = tg.trap_grad(area, gmax, dgdt, dt)
        ok = check_wave("trap_grad", trap, rp, area, gmax, dgdt, dt, V1)
    except Exception as e:
        V1("raised", "trap_grad raised %s: %s" % (type(e).__name__, str(e)[:120]))
    try:
        first2, _ = tg.min_trap_grad(area, gmax, dgdt, dt)
        if isinstance(first2, np.ndarray) and first2.flags.writeable:
            first2 *= -1
        trap2, rp2 = tg.min_trap_grad(area, gmax, dgdt, dt)
        ok = check_wave("min_trap_grad", trap2, rp2, area, gmax, dgdt, dt, V2, flat_only=True) or ok
    except Exception as e:
        V2("raised", "min_trap_grad raised %s: %s" % (type(e).__name__, str(e)[:120]))
    return dict(states=1, transitions=2, nontrivial=bool(ok), outcome=regime if not viol else "violation:" + viol[0]["oracle"], viol=viol)


def run_spokes(case, viol):
    from sigpy.mri.rf import trajgrad as tg
    k = np.array(case["k"], dtype=float)
    gmax, dgdt, dt = case["gmax"], case["dgdt"], case["dt"]
    tbw, sl = 4, 5.0
    area = tbw / (sl / 10) / 4257
    sub, _ = tg.min_trap_grad(area, gmax, dgdt, dt)
    nseg = int(np.size(sub))
    # predicate of the configuration: does every transverse blip fit inside one slice-select subpulse?
    target = np.vstack([k, np.zeros((1, 2))])
    incr = np.abs(np.diff(target, axis=0)) / 4257
    longest = 0
    for a_ in incr.ravel():
        if a_ > 0:
            longest = max(longest, int(np.size(tg.trap_grad(float(a_), gmax, dgdt, dt)[0])))
    fits = longest <= nseg
    when = "every blip fits inside the slice-select subpulse" if fits else "a blip is longer than the slice-select subpulse"

    def V(oracle, detail):
        viol.append(dict(oracle=oracle, key=dict(site="mri.rf.trajgrad.spokes_grad", when=when), detail=detail + " | " + str(case)))
    try:
        g = tg.spokes_grad(k, tbw, sl, gmax, dgdt, dt)
    except Exception as e:
        V("raised", "spokes_grad raised %s: %s (longest blip %d samples, subpulse %d samples)" % (type(e).__name__, str(e)[:160], longest, nseg))
        return dict(states=1, transitions=1, nontrivial=True, outcome="violation:raised", viol=viol)
    g = np.asarray(g, dtype=float)
    if g.ndim != 2 or g.shape[0] != 3:
        V("waveform-shape", "spokes_grad returned shape %s" % (g.shape,))
        return dict(states=1, transitions=1, nontrivial=True, outcome="violation:waveform-shape", viol=viol)
    tol = 1e-9
    for ax, nm in enumerate("xyz"):
        mx = float(np.abs(g[ax]).max())
        if not mx <= gmax * (1 + tol):
            V("amplitude", "g%s: max |g| = %.9g > gmax %.9g" % (nm, mx, gmax))
        sl_ = float(np.abs(np.diff(np.concatenate(([0.0], g[ax], [0.0])))).max() / dt)
        if not sl_ <= dgdt * (1 + tol):
            V("slew", "g%s: max |dg/dt| = %.9g > %.9g (incl. junctions and end points)" % (nm, sl_, dgdt))
    for ii in range(len(k)):
        end = (ii + 1) * nseg
        bad = False
        for ax in (0, 1):
            moved = float(np.sum(g[ax, :end]) * dt * 4257)
            want = float(target[ii + 1, ax] - target[0, ax])
            if not abs(moved - want) <= 1e-6 * max(1.0, abs(want)):
                V("k-space-increment", "after spoke %d the %s gradient has moved k-space by %.9g, requested %.9g" % (ii, "xy"[ax], moved, want))
                bad = True
                break
        if bad:
            break
    return dict(states=1, transitions=1, nontrivial=True, outcome=("ok/" + ("fits" if fits else "long-blip")) if not viol else "violation:" + viol[0]["oracle"], viol=viol)


def run_stspk(case, viol):
    """ptx.stspk returns (pulses, g); g is assembled by spokes_grad from trap_grad / min_trap_grad designs, each of which
    starts and ends at zero, so the assembled gradient does too; amplitude and slew (zero-extended) as for spokes_grad;
    RF and gradient have one sample each per time point; with one spoke (at DC)
    the gradient IS spokes_grad([[0, 0]])."""
    import sigpy.mri.rf as rfm
    from sigpy.mri.rf import trajgrad as tg
    gmax, dgdt, dt = case["gmax"], case["dgdt"], case["dt"]
    ns, tbw, sl = case["n_spokes"], case["tbw"], case["sl_thick"]
    dim, nc = 8, 2
    yy, xx = np.mgrid[:dim, :dim]
    mask = ((xx - 3.5) ** 2 + (yy - 3.5) ** 2 <= 9)
    sens = np.stack([np.exp(-((xx - 1) ** 2 + (yy - 3) ** 2) / 30) * np.exp(1j * 0.2 * xx),
                     np.exp(-((xx - 6) ** 2 + (yy - 4) ** 2) / 30) * np.exp(-1j * 0.3 * yy)]).astype(np.complex64) * mask
    when = "%d spoke(s)" % ns if ns == 1 else "several spokes"

    def V(oracle, detail):
        viol.append(dict(oracle=oracle, key=dict(site="mri.rf.ptx.stspk", when=when), detail=detail + " | " + str(case)))
    pulses, g = rfm.stspk(mask, sens, ns, fov=4, dx_max=1, gts=dt, sl_thick=sl, tbw=tbw, dgdtmax=dgdt, gmax=gmax)
    g = np.asarray(g, dtype=float)
    pulses = np.asarray(pulses)
    if g.ndim != 2 or g.shape[0] != 3 or pulses.ndim != 2 or pulses.shape[0] != nc:
        V("waveform-shape", "stspk returned pulses %s, g %s" % (pulses.shape, g.shape))
        return dict(states=1, transitions=1, nontrivial=True, outcome="violation:waveform-shape", viol=viol)
    if pulses.shape[1] != g.shape[1]:
        V("waveform-shape", "RF has %d samples, gradient %d" % (pulses.shape[1], g.shape[1]))
    tol = 1e-9
    for ax, nm in enumerate("xyz"):
        if g[ax, 0] != 0 or g[ax, -1] != 0:
            V("end-points", "g%s: first/last sample %.6g / %.6g" % (nm, g[ax, 0], g[ax, -1]))
        mx = float(np.abs(g[ax]).max())
        if not mx <= gmax * (1 + tol):
            V("amplitude", "g%s: max |g| = %.9g > gmax %.9g" % (nm, mx, gmax))
        sl_ = float(np.abs(np.diff(np.concatenate(([0.0], g[ax], [0.0])))).max() / dt)
        if not sl_ <= dgdt * (1 + tol):
            V("slew", "g%s: max |dg/dt| = %.9g > %.9g (incl. junctions and end points)" % (nm, sl_, dgdt))
    if ns == 1:
        ref = np.asarray(tg.spokes_grad(np.zeros((1, 2)), tbw, sl, gmax, dgdt, dt), dtype=float)
        if ref.shape != g.shape or not np.array_equal(ref, g):
            V("assembled-gradient", "one spoke at DC: the returned gradient %s is not spokes_grad([[0, 0]]) %s" % (g.shape, ref.shape))
    return dict(states=1, transitions=1, nontrivial=True, outcome=("stspk/odd" if g.shape[1] % 2 else "stspk/even") if not viol else "violation:" + viol[0]["oracle"], viol=viol)


def run_pins(case, viol):
    """multiband.dz_pins returns (rf, g): g alternates zero stretches (RF on) with trap_grad blips; it must respect the
    amplitude and slew limits it was given (zero-extended at both ends) and have one sample per RF sample."""
    import sigpy.mri.rf as rfm
    gmax, dgdt, dt = case["gmax"], case["dgdt"], case["dt"]
    rf_, g = rfm.multiband.dz_pins(case["tb"], case["sl_sep"], case["sl_thick"], gmax, dgdt, dt)
    g = np.asarray(g, dtype=float).ravel()
    rf_ = np.asarray(rf_).ravel()
    # is the blip a triangle or a trapezoid?  (regime label only)
    area = 1.0 / (case["sl_sep"] * 4258)
    r = int(np.ceil(gmax / dgdt / dt))
    when = "triangle blips" if r * dt * gmax > area else "trapezoid blips"

    def V(oracle, detail):
        viol.append(dict(oracle=oracle, key=dict(site="mri.rf.multiband.dz_pins", when=when), detail=detail + " | " + str(case)))
    tol = 1e-9
    if rf_.size != g.size:
        V("waveform-shape", "RF has %d samples, gradient %d" % (rf_.size, g.size))
    if not np.all(np.isfinite(g)):
        V("finite", "gradient has non-finite samples")
    else:
        mx = float(np.abs(g).max())
        if not mx <= gmax * (1 + tol):
            V("amplitude", "max |g| = %.9g > g_max %.9g" % (mx, gmax))
        sl_ = float(np.abs(np.diff(np.concatenate(([0.0], g, [0.0])))).max() / dt)
        if not sl_ <= dgdt * (1 + tol):
            V("slew", "max |dg/dt| = %.9g > %.9g (incl. end points)" % (sl_, dgdt))
    return dict(states=1, transitions=1, nontrivial=bool(np.abs(g).max() > 0), outcome=("pins/" + when) if not viol else "violation:" + viol[0]["oracle"], viol=viol)
