"""Reference index maps written from the documentation (no sigpy import).

Every gather function is described by ``src``: an integer array of the output
shape holding, for every output element, the flat index of the input element
that must appear there, or -1 where the documentation says zero.
"""
import itertools

import numpy as np


def _prod(s):
    p = 1
    for v in s:
        p *= int(v)
    return p


def apply_src(src, x):
    flat = np.asarray(x).ravel()
    out = np.zeros(src.shape, dtype=flat.dtype)
    m = src >= 0
    out[m] = flat[src[m]]
    return out


def gather_matrix(src, n_in):
    G = np.zeros((src.size, n_in))
    s = src.ravel()
    for r, c in enumerate(s):
        if c >= 0:
            G[r, c] = 1
    return G


def resize_src(ishape, oshape, ishift=None, oshift=None):
    """Centre-aligned pad/crop: index n//2 of the input lands on index m//2 of
    the output; with explicit shifts out[oshift+t] = in[ishift+t]."""
    ishape = list(ishape)
    oshape_req = list(oshape)
    nd = max(len(ishape), len(oshape_req))
    i1 = [1] * (nd - len(ishape)) + ishape
    o1 = [1] * (nd - len(oshape_req)) + oshape_req
    idx_in = np.arange(_prod(i1)).reshape(i1)
    src = -np.ones(o1, dtype=np.int64)
    for opos in itertools.product(*[range(m) for m in o1]):
        ipos = []
        ok = True
        for d, j in enumerate(opos):
            n, m = i1[d], o1[d]
            if ishift is None and oshift is None:
                k = j - m // 2 + n // 2
                ok_d = 0 <= k < n
            else:
                si = ishift[d] if ishift is not None else max(n // 2 - m // 2, 0)
                so = oshift[d] if oshift is not None else max(m // 2 - n // 2, 0)
                t = j - so
                cnt = max(0, min(n - si, m - so))
                k = si + t
                ok_d = 0 <= t < cnt
            if not ok_d:
                ok = False
                break
            ipos.append(k)
        if ok:
            src[opos] = idx_in[tuple(ipos)]
    return src.reshape(oshape_req)


def flip_src(shape, axes):
    nd = len(shape)
    ax = set(range(nd)) if axes is None else {a % nd for a in axes}
    idx = np.arange(_prod(shape)).reshape(shape)
    src = np.empty(shape, dtype=np.int64)
    for pos in itertools.product(*[range(n) for n in shape]):
        ipos = tuple(shape[d] - 1 - p if d in ax else p for d, p in enumerate(pos))
        src[pos] = idx[ipos]
    return src


def circshift_src(shape, shifts, axes):
    nd = len(shape)
    if axes is None:
        axes = list(range(nd))
    tot = [0] * nd
    for a, s in zip(axes, shifts):
        tot[a % nd] += s
    idx = np.arange(_prod(shape)).reshape(shape)
    src = np.empty(shape, dtype=np.int64)
    for pos in itertools.product(*[range(n) for n in shape]):
        # out[(j + s) mod n] = in[j]
        ipos = tuple((p - tot[d]) % shape[d] for d, p in enumerate(pos))
        src[pos] = idx[ipos]
    return src


def downsample_shape(ishape, factors, shift):
    return [max(0, -(-(n - s) // f)) for n, f, s in zip(ishape, factors, shift)]


def downsample_src(ishape, factors, shift=None):
    if shift is None:
        shift = [0] * len(ishape)
    oshape = downsample_shape(ishape, factors, shift)
    idx = np.arange(_prod(ishape)).reshape(ishape)
    src = np.empty(oshape, dtype=np.int64)
    for pos in itertools.product(*[range(n) for n in oshape]):
        ipos = tuple(s + k * f for k, f, s in zip(pos, factors, shift))
        src[pos] = idx[ipos]
    return src


def blocks_shape(N, B, S):
    return [(n - b + s) // s for n, b, s in zip(N, B, S)]


def array_to_blocks_src(ishape, blk_shape, blk_strides):
    """out[batch, n_1..n_D, b_1..b_D] = in[batch, n_d*S_d + b_d]."""
    D = len(blk_shape)
    batch = list(ishape[:-D])
    N = list(ishape[-D:])
    nb = blocks_shape(N, blk_shape, blk_strides)
    oshape = batch + nb + list(blk_shape)
    idx = np.arange(_prod(ishape)).reshape(ishape)
    src = -np.ones(oshape, dtype=np.int64)
    for bpos in itertools.product(*[range(n) for n in batch]):
        for npos in itertools.product(*[range(n) for n in nb]):
            for kpos in itertools.product(*[range(n) for n in blk_shape]):
                ipos = tuple(n * s + k for n, s, k in zip(npos, blk_strides, kpos))
                if all(p < m for p, m in zip(ipos, N)):
                    src[bpos + npos + kpos] = idx[bpos + ipos]
    return src
