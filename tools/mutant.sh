#!/bin/bash
# tools/mutant.sh <patch.diff> <PID> [<PID> ...]  [-- tier]
# Applies a patch to a scratch copy of /repo (outside /repo and /verif), runs the given
# checks against it (VERIF_REPO), prints one line per check, removes the copy.
set -u
PATCH="$(readlink -f "$1")"; shift
TIER=quick
PIDS=()
while [ $# -gt 0 ]; do if [ "$1" = "--" ]; then TIER="$2"; shift 2; else PIDS+=("$1"); shift; fi; done
W="$(mktemp -d /tmp/mut.XXXXXX)"
trap 'rm -rf "$W"' EXIT
git -C /repo archive HEAD | tar -x -C "$W"
# include uncommitted working-tree state of /repo as well
(cd /repo && git diff HEAD) | (cd "$W" && patch -p1 -s >/dev/null 2>&1 || true)
if ! (cd "$W" && patch -p1 -s < "$PATCH"); then echo "PATCH-FAILED $PATCH"; exit 3; fi
for p in "${PIDS[@]}"; do
  out="$(cd "$(dirname "$(dirname "$(readlink -f "$0")")")" && VERIF_REPO="$W" ./check "$p" "$TIER" 2>&1)"; rc=$?
  nv="$(echo "$out" | grep -c '^VIOLATION')"
  echo "$(basename "$(dirname "$PATCH")")/$(basename "$PATCH") $p rc=$rc violations_printed=$nv :: $(echo "$out" | grep -m1 -A1 '^VIOLATION' | tail -1 | cut -c1-220)"
done
