#!/bin/bash
# tools/intake.sh <PID> <name> <src_dir_with_patch.diff+demo.py+notes.md> [extra PIDs to run]
# Confirms a seeded change independently (fresh scratch copy of /repo): patch applies, test suite passes with it,
# demo fails with it and passes without; then runs the property's check (and extras) against it and writes
# /verif/seeded/<name>/{patch.diff,demo.py,notes.md,meta.json}.
set -u
PID="$1"; NAME="$2"; SRC="$3"; shift 3; EXTRA=("$@")
DST=/verif/seeded/$NAME; mkdir -p "$DST"
cp "$SRC/patch.diff" "$SRC/demo.py" "$DST/" ; cp "$SRC/notes.md" "$DST/" 2>/dev/null
W="$(mktemp -d /tmp/intake.XXXXXX)"; trap 'rm -rf "$W"' EXIT
git -C /repo archive HEAD | tar -x -C "$W"
export OMP_NUM_THREADS=1 OPENBLAS_NUM_THREADS=1 MKL_NUM_THREADS=1
# demo on the unchanged tree
( cd "$W" && PYTHONPATH="$W" NUMBA_CACHE_DIR="$W/.nb" timeout 300 /venv/bin/python -W ignore "$DST/demo.py" >"$W/demo_clean.log" 2>&1 ); RC_CLEAN=$?
if ! ( cd "$W" && patch -p1 -s < "$DST/patch.diff" ); then echo "INTAKE $NAME: patch does not apply"; exit 3; fi
( cd "$W" && PYTHONPATH="$W" NUMBA_CACHE_DIR="$W/.nb" timeout 300 /venv/bin/python -W ignore "$DST/demo.py" >"$W/demo_mut.log" 2>&1 ); RC_MUT=$?
( cd "$W" && PYTHONPATH="$W" NUMBA_CACHE_DIR="$W/.nb" timeout 1800 /venv/bin/python -m pytest -q -p no:cacheprovider --timeout=900 --ignore=tests/learn 2>&1 | tail -1 > "$W/suite.log" )
SUITE="$(cat "$W/suite.log")"
RES=()
for p in "$PID" "${EXTRA[@]}"; do
  out="$(cd /verif && VERIF_REPO="$W" ./check "$p" quick 2>&1)"; rc=$?
  first="$(echo "$out" | grep -m1 -A1 '^VIOLATION' | tail -1 | cut -c1-300)"
  RES+=("$p:quick:rc=$rc:$first")
  if [ $rc -eq 0 ] && [ "$p" = "$PID" ] && [ "${INTAKE_THOROUGH:-0}" = "1" ]; then
    out="$(cd /verif && VERIF_REPO="$W" ./check "$p" thorough 2>&1)"; rc=$?
    first="$(echo "$out" | grep -m1 -A1 '^VIOLATION' | tail -1 | cut -c1-300)"
    RES+=("$p:thorough:rc=$rc:$first")
  fi
done
python3 - "$PID" "$NAME" "$RC_CLEAN" "$RC_MUT" "$SUITE" "${RES[@]}" <<'PY'
import json,sys,subprocess
pid,name,rc_clean,rc_mut,suite=sys.argv[1:6]; res=sys.argv[6:]
meta={"property":pid,"name":name,"base_commit":subprocess.check_output(["git","-C","/repo","log","-1","--format=%h"]).decode().strip(),
 "demo_exit_unchanged":int(rc_clean),"demo_exit_with_change":int(rc_mut),"test_suite_with_change":suite,
 "confirmed": int(rc_clean)==0 and int(rc_mut)!=0 and ("passed" in suite and "failed" not in suite),
 "checks_run":[dict(zip(["check","tier","exit","first_violation"], r.split(":",3))) for r in res],
 "what_it_needs": open("/verif/seeded/%s/notes.md"%name).read()[:1500] if True else ""}
meta["detected_by"]=[c["check"]+"/"+c["tier"] for c in meta["checks_run"] if c["exit"]=="rc=1"]
json.dump(meta,open("/verif/seeded/%s/meta.json"%name,"w"),indent=1)
print("INTAKE",name,"confirmed=%s"%meta["confirmed"],"demo clean/mut=%s/%s"%(rc_clean,rc_mut),"suite:",suite,"detected_by:",meta["detected_by"])
PY
