#!/bin/bash
# tools/revert_wave.sh [tier]: for every "fix:" commit in /repo, revert it in a scratch copy and run the
# checks named in the mapping below; each must report a VIOLATION (exit 1).
TIER="${1:-quick}"
declare -A MAP
while read -r sha pids; do MAP[$sha]="$pids"; done < /verif/tools/fix_map.txt
mkdir -p /tmp/rw
for sha in $(git -C /repo log --format=%h --grep='^fix:' --reverse); do
  pids="${MAP[$sha]:-}"
  [ -z "$pids" ] && { echo "$sha: no mapping"; continue; }
  git -C /repo diff "$sha" "$sha^" -- sigpy > /tmp/rw/revert_$sha.diff
  subj="$(git -C /repo log -1 --format=%s $sha | cut -c1-60)"
  /verif/tools/mutant.sh /tmp/rw/revert_$sha.diff $pids -- "$TIER" | while IFS= read -r line; do printf '%s :: %s\n' "$subj" "$line"; done
done
