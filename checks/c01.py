"""C01 — every linear operator's adjoint is its true adjoint.

Alphabet: every leaf configuration of vf.opcat.leaf_specs (Appendix A) and every
well-typed expression tree (vf.programs) with <= k internal nodes.
Oracle: M(A.H) == M(A)^H by basis probing (decides <Ax,y> = <x,A^H y> for ALL
complex x, y because both sides are linear - which is itself probed), shapes
swapped, M(A.H.H) == M(A).
"""
import numpy as np

from vf import dense, opcat, programs

PID = "C01"
LEVEL = "model_checking"
ENGINE = "E1+E3"
TECHNIQUE = ("bounded-exhaustive enumeration of operator configurations and expression trees on the real code; "
             "dense matrices by basis probing; finite matrix identity M(A.H) = M(A)^H")
LEVEL_TEXT = ("Every leaf configuration in the stated alphabets and every well-typed expression tree up to the node bound "
              "is built with the real constructors; A, A.H and A.H.H are applied to the whole canonical basis and the "
              "finite identity M(A.H)=M(A)^H, together with a linearity probe of both operators, decides the adjoint "
              "identity for all complex inputs of that configuration.")
LEVEL_NOTE = ("Bounded shapes (<= 24/40 elements) and trees (<= 2/3 internal nodes); ToDevice/AllReduce need GPU/MPI and are "
              "not reachable here; tolerance 1e-9 relative to max|M|.")
RULE = ("one case = one operator configuration or expression tree; leaves: Appendix-A alphabets (full product per class, "
        "thinned only where stated in opcat.leaf_specs); trees: every well-typed tree over programs.LEAVES with <= k "
        "internal nodes and every stacking axis in [-ndim, ndim) and None. non-trivial = M(A) is neither zero nor the identity")
ASSUMPTIONS = ["CPU/NumPy backend", "captured arrays drawn from default_rng keyed by (VERIF_SEED, spec)",
               "tolerance 1e-9 relative to max|M(A)|"]
TOL = 1e-9
CHUNK = 24


def bounds(tier):
    return {"leaf alphabets": "vf/opcat.py leaf_specs('%s')" % tier,
            "n-ary": "3- and 4-operand Add/Compose/Hstack/Vstack/Diag over 5 leaves (quick) / 3-operand over 11 leaves (thorough)", "tree nodes": "1 over 11 leaves (all axes), 2 over 5 leaves (non-negative axes)" if tier == "quick" else "<= 2 over 11 leaves (all axes), 3 over 3 leaves",
            "deviation": "full product within each class alphabet"}


def gen_cases(tier, seed):
    cases = [dict(kind="leaf", spec=s) for s in opcat.leaf_specs(tier)]
    for t in programs.trees(programs.LEAVES, 1):
        cases.append(dict(kind="tree", spec=t))
    for t in programs.nary_trees(programs.SUB5 if tier == "quick" else programs.LEAVES, (3, 4) if tier == "quick" else (3,)):
        cases.append(dict(kind="tree", spec=t))
    # the same configuration written in the alternative argument forms the API accepts (lists, ranges, NumPy integers,
    # tuples vs lists for shapes): the operator must be the same operator
    for s in opcat.leaf_specs(tier, classes={"FFT", "IFFT", "Flip", "Circshift", "Sum", "Tile", "Transpose", "Downsample", "Upsample",
                                            "ArrayToBlocks", "BlocksToArray", "Resize", "FiniteDifference", "Wavelet"})[::17]:
        for form in ("list", "npint", "range"):
            cases.append(dict(kind="argform", spec=s, form=form))
    # the operator after its user overwrote, in place, the array it was built from (alternating schemes update a matrix or
    # a weight map between solves): A, A.H and A.N - also the ones obtained BEFORE the overwrite - must describe one
    # and the same operator.  Only for the operators that hold a plain reference to the caller's array.
    for s in opcat.leaf_specs(tier, classes={"Multiply", "MatMul", "RightMatMul"})[::3]:
        if "mshape" in s or "mshape" in s.get("mult", {}):
            cases.append(dict(kind="captured-overwritten", spec=s))
    if tier == "quick":
        for t in programs.trees(programs.SUB5, 2, all_axes=False, scalars=programs.SCALARS[:2]):
            cases.append(dict(kind="tree", spec=t))
    else:
        for t in programs.trees(programs.LEAVES, 2):
            cases.append(dict(kind="tree", spec=t))
        for t in programs.trees(programs.SUB3, 3, all_axes=False, scalars=programs.SCALARS[:1]):
            cases.append(dict(kind="tree", spec=t))
    return cases


def warmup():
    import sigpy as sp
    for nd in (1, 2, 3):
        for kern, prm in (("spline", 1), ("kaiser_bessel", 2.0)):
            x = np.zeros([3] * nd, dtype=np.complex128)
            c = np.zeros((2, nd))
            sp.interpolate(x, c, kernel=kern, width=2, param=prm)
            sp.gridding(np.zeros(2, dtype=np.complex128), c, [3] * nd, kernel=kern, width=2, param=prm)


def classify(spec):
    neg = False
    for k in ("axes", "axis", "iaxis", "oaxis"):
        v = spec.get(k)
        if isinstance(v, int) and v < 0:
            neg = True
        if isinstance(v, list) and any(isinstance(a, int) and a < 0 for a in v):
            neg = True
    w = "negative axis" if neg else "non-negative/None axis"
    if spec["op"] == "Diag":
        if (spec.get("iaxis") is None) != (spec.get("oaxis") is None):
            w += ", exactly one of iaxis/oaxis None"
    return w


def exc_key(case, root):
    spec = case["spec"]
    return dict(site=spec["op"], when=classify(spec) + ", raised " + type(root).__name__)


def _reform(v, form):
    """Rewrite an integer-sequence argument in another accepted form; returns None if not expressible."""
    if v is None or isinstance(v, (int, float)):
        return v
    if not isinstance(v, (list, tuple)) or not all(isinstance(a, int) for a in v):
        return v
    if form == "list":
        return list(v)
    if form == "npint":
        return tuple(np.int64(a) for a in v)
    if form == "range":
        if len(v) >= 1 and all(v[i + 1] - v[i] == 1 for i in range(len(v) - 1)):
            return range(v[0], v[-1] + 1)
        return None
    return v


def run_argform(case, seed):
    import sigpy as sp
    from sigpy import linop as L
    spec = case["spec"]
    form = case["form"]
    op = spec["op"]
    viol = []
    A0 = opcat.build(spec, seed)
    M0 = dense.dense_linop(A0)
    g = spec.get
    keys = {"FFT": ["axes"], "IFFT": ["axes"], "Flip": ["axes"], "Sum": ["axes"], "Tile": ["axes"], "Transpose": ["axes"],
            "Circshift": ["axes", "shift"], "Downsample": ["factors", "shift"], "Upsample": ["factors", "shift"],
            "ArrayToBlocks": ["B", "S"], "BlocksToArray": ["B", "S"], "Resize": ["ishift", "oshift"],
            "FiniteDifference": ["axes"], "Wavelet": ["axes"]}[op]
    new = {}
    changed = False
    for k in keys:
        r = _reform(g(k), form)
        if r is None and g(k) is not None:
            return dict(states=1, transitions=1, nontrivial=False, outcome="form-not-expressible", viol=[])
        new[k] = r
        changed = changed or (g(k) is not None)
    if not changed:
        return dict(states=1, transitions=1, nontrivial=False, outcome="no-sequence-argument", viol=[])
    shp = tuple(spec.get("shape") or spec.get("ishape")) if form != "list" else list(spec.get("shape") or spec.get("ishape"))
    try:
        if op in ("FFT", "IFFT"):
            A = getattr(L, op)(shp, axes=new["axes"], center=g("center", True))
        elif op == "Flip":
            A = L.Flip(shp, axes=new["axes"])
        elif op in ("Sum", "Tile"):
            A = getattr(L, op)(shp, new["axes"])
        elif op == "Transpose":
            A = L.Transpose(shp, axes=new["axes"])
        elif op == "Circshift":
            A = L.Circshift(shp, new["shift"], axes=new["axes"])
        elif op in ("Downsample", "Upsample"):
            A = getattr(L, op)(shp, new["factors"], shift=new["shift"])
        elif op in ("ArrayToBlocks", "BlocksToArray"):
            A = getattr(L, op)(shp, new["B"], new["S"])
        elif op == "Resize":
            A = L.Resize(tuple(spec["oshape"]) if form != "list" else list(spec["oshape"]), shp, ishift=new["ishift"], oshift=new["oshift"])
        elif op == "FiniteDifference":
            A = L.FiniteDifference(shp, axes=new["axes"])
        else:
            A = L.Wavelet(shp, axes=new["axes"], wave_name=g("wave", "db4"), level=g("level"))
        same_shapes = list(A.ishape) == list(A0.ishape) and list(A.oshape) == list(A0.oshape)
        M = dense.dense_linop(A) if same_shapes else None
        MH = dense.dense_linop(A.H) if same_shapes else None
    except Exception as e:
        viol.append(dict(oracle="argument-form", key=dict(site=op, when="arguments given as %s" % form),
                         detail="the configuration %s is accepted with tuples but raises %s: %s when its integer sequences are given as %s" % (
                             opcat.pretty(spec)[:160], type(e).__name__, str(e)[:120], form)))
        return dict(states=1, transitions=1, nontrivial=True, outcome="violation:argument-form", viol=viol)
    if not same_shapes or dense.relerr(M, M0) > TOL or dense.relerr(MH, M0.conj().T) > TOL:
        viol.append(dict(oracle="argument-form", key=dict(site=op, when="arguments given as %s" % form),
                         detail="%s: operator (or its adjoint) differs when the integer sequences are given as %s" % (opcat.pretty(spec)[:160], form)))
    return dict(states=2, transitions=3 * M0.shape[1], nontrivial=True, outcome="ok" if not viol else "violation:argument-form", viol=viol)


def run_captured_overwritten(case, seed):
    spec = programs.strip(case["spec"])
    viol = []
    del opcat.CREATED[:]
    A = opcat.build(spec, seed)
    created = [a for a, _ in opcat.CREATED if isinstance(a, np.ndarray) and a.flags.writeable and np.issubdtype(a.dtype, np.inexact)]
    if not created:
        return dict(states=1, transitions=1, nontrivial=False, outcome="no-captured-float-array", viol=[])
    AH, AN = A.H, A.N          # obtained before the overwrite (and memoised on A)
    M0 = dense.dense_linop(A)
    for a in created:
        a[...] = (-0.5 * a + 0.25).astype(a.dtype)
    M1 = dense.dense_linop(A)
    follows = not np.allclose(M1, M0)
    trans = 2 * M0.shape[1]
    for label, op, ref in (("A.H obtained before the overwrite", AH, M1.conj().T), ("A.H read again", A.H, M1.conj().T),
                           ("A.N obtained before the overwrite", AN, M1.conj().T @ M1), ("A.N read again", A.N, M1.conj().T @ M1),
                           ("A.H.H", A.H.H, M1)):
        try:
            e = dense.relerr(dense.dense_linop(op), ref)
        except dense.ShapeError as ex:
            e = float("inf")
        trans += ref.shape[1]
        if not e <= TOL:
            viol.append(dict(oracle="consistent-after-overwrite", key=dict(site=spec["op"], when="captured array overwritten in place"),
                             detail="after the array the operator was built from was overwritten in place, %s differs from what "
                                    "A itself now does by %.3g (A %s the overwrite)" % (label, e, "follows" if follows else "ignores"),
                             python="vf.opcat.build(%r)" % (spec,)))
            break
    return dict(states=2, transitions=trans, nontrivial=bool(follows),
                outcome=("ok/follows" if follows else "ok/snapshot") if not viol else "violation:consistent-after-overwrite", viol=viol)


def run_case(case, seed):
    if case["kind"] == "argform":
        return run_argform(case, seed)
    if case["kind"] == "captured-overwritten":
        return run_captured_overwritten(case, seed)
    spec = programs.strip(case["spec"])
    site = spec["op"]
    when = classify(spec)
    viol = []

    def V(oracle, detail, extra=""):
        viol.append(dict(oracle=oracle, key=dict(site=site, when=when + extra), detail=detail,
                         python="vf.opcat.build(%r)" % (spec,)))

    A = opcat.build(spec, seed)
    ish, osh = list(A.ishape), list(A.oshape)
    AH = A.H
    trans = 0
    if list(AH.ishape) != osh or list(AH.oshape) != ish:
        V("adjoint-shapes", "A: %s->%s but A.H: %s->%s" % (ish, osh, list(AH.ishape), list(AH.oshape)))
        return dict(states=1, transitions=1, nontrivial=True, outcome="violation:adjoint-shapes", viol=viol)
    try:
        M = dense.dense_linop(A)
        MH = dense.dense_linop(AH)
        trans += M.shape[1] + MH.shape[1]
    except dense.ShapeError as e:
        V("output-shape", str(e))
        return dict(states=1, transitions=1, nontrivial=True, outcome="violation:output-shape", viol=viol)
    e1 = dense.relerr(MH, M.conj().T)
    if not e1 <= TOL:
        V("adjoint-matrix", "max|M(A.H) - M(A)^H| / max|M| = %.3g" % e1)
    AHH = AH.H
    if list(AHH.ishape) != ish or list(AHH.oshape) != osh:
        V("adjoint-adjoint-shapes", "A.H.H: %s->%s" % (list(AHH.ishape), list(AHH.oshape)))
    else:
        try:
            MHH = dense.dense_linop(AHH)
            trans += MHH.shape[1]
            e2 = dense.relerr(MHH, M)
            if not e2 <= TOL:
                V("adjoint-adjoint", "max|M(A.H.H) - M(A)| / max|M| = %.3g" % e2)
        except dense.ShapeError as e:
            V("output-shape", "A.H.H: " + str(e))
    badA = dense.linearity_defects(lambda x: A(x), M, ish, TOL)
    badH = dense.linearity_defects(lambda y: AH(y), MH, osh, TOL)
    trans += 2 * (M.shape[1] + MH.shape[1]) + 4
    if badA:
        V("linearity", "A is not C-linear on probe %s (err %.3g)" % badA[0])
    if badH:
        V("linearity", "A.H is not C-linear on probe %s (err %.3g)" % badH[0])
    n = M.shape[0]
    trivial = (not M.any()) or (M.shape[0] == M.shape[1] and np.allclose(M, np.eye(n)))
    return dict(states=3, transitions=trans, nontrivial=not trivial,
                outcome="ok" if not viol else "violation:" + viol[0]["oracle"], viol=viol)
