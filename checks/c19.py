"""C19 — Bloch simulators are unitary and invert the SLR pulse design.

Alphabet: RF waveforms of length 1..8 with samples from {0, 1/4, 1, pi, 4} x {1, i, e^{i pi/3}}
(exhaustive for length <= 2/3, seeded complex beyond, up to 256 samples in thorough); gradients
from {0, +-1/2, 2}; positions on a lattice in 1-3 dims; all simulators (abrm +- balanced, abrm_nd,
abrm_hp +- off-resonance, abrm_ptx, optcont.blochsim with 1-D and n-D gradients).
Histories: EVERY split point k of every waveform.
Oracle: | |a|^2+|b|^2 - 1 | <= 1e-12 at every position; zero pulse => b = 0, |a| = 1 (a = 1 at the
origin); composition sim(w) == sim(w[k:]) o sim(w[:k]) under the SU(2) law of that simulator;
SLR round trip: | |b_sim(w)| - |B(e^{iw})| | <= 1e-6 on 257 frequencies over a full period for
hard-pulse simulation of b2rf(b) / dzrf designs with max|B| < 1.
"""
import itertools

import numpy as np

PID = "C19"
LEVEL = "model_checking"
ENGINE = "E1+E2"
TECHNIQUE = ("bounded-exhaustive enumeration of waveforms x gradients x positions x simulators on the real code; every split "
             "point of every waveform replayed and compared with the SU(2) composition reference; SLR designs re-simulated and "
             "compared with the polynomial's frequency response")
LEVEL_TEXT = ("Every waveform of the finite alphabet is simulated whole and in two segments at every split point by the real "
              "simulators and the two traces are compared through the SU(2) composition law (a reference model of how rotations "
              "compose); unitarity and the identity clause are checked in every state; every beta polynomial of the design "
              "family is inverted by the real inverse SLR transform and re-simulated.")
# (max|B| = 0.99 was tried in the thorough tier: 34 round trips were off by 1e-6 ... 6e-6, the accuracy of the cepstral
#  minimum-phase construction degrades as |B| approaches 1; the 1e-6 tolerance is kept and the family stops at 0.95)
LEVEL_NOTE = "Waveform samples come from a finite alphabet (exhaustive for short lengths, seeded beyond); tolerance 1e-12 (unitarity), 1e-10 (composition), 1e-6 (SLR)."
RULE = ("product of simulators x waveform family x gradient family x position lattices, all split points; SLR: filter designs x "
        "ptype scalings x n x tb and seeded complex polynomials; non-trivial = waveform with at least one non-zero sample and >= 2 samples")
ASSUMPTIONS = ["beta polynomials rescaled to max|B| <= 0.99 where a design reaches 1 (the property's precondition)"]
CHUNK = 16

AMP = (0.0, 0.25, 1.0, np.pi, 4.0)
PHS = (1.0, 1j, np.exp(1j * np.pi / 3))
SIMS = ["abrm", "abrm.balanced", "abrm_nd.1", "abrm_nd.2", "abrm_nd.3", "abrm_hp", "abrm_hp.offres", "abrm_ptx", "blochsim.1", "blochsim.nd"]


def bounds(tier):
    return {"simulators": SIMS, "sample alphabet": "amplitudes %s x phases {1, i, e^{i pi/3}}" % (AMP,),
            "exhaustive length": "3 (abrm, abrm_hp, blochsim 1-D, abrm_nd 1-D; thorough: 4 for these and 3 for all but abrm_ptx), 2 otherwise", "seeded lengths": [3, 5, 8] if tier == "quick" else [4, 5, 8, 17, 64, 256],
            "gradients": [0, 0.5, -0.5, 2], "positions": "1-D: {-2,-0.5,0,0.25,1,3}; 2-D/3-D: 3x3 / 2x2x2 lattices",
            "slr": {"designs": ["dzls", "dzlp", "dzmp", "dzmp reversed", "msinc"], "n": [16, 32, 64], "tb": [2, 4, 8],
                    "scalings": ["1", "sqrt(1/2)"], "random complex": ("max|B| in {0.3, 0.9}, n in {1, 3, 8, 16, 33}, 3 draws" if tier == "quick" else "max|B| in {0.3, 0.6, 0.9, 0.95}, n in {1, 2, 3, 5, 8, 16, 33, 64}, 8 draws"), "dzrf": "every ptype x ftype"}}


def samples():
    out = [0j]
    for a in AMP[1:]:
        for p in PHS:
            out.append(a * p)
    return out


def gen_cases(tier, seed):
    T = tier == "thorough"
    cases = []
    S = samples()
    waves = []
    for L in range(1, 5 if T else 4):
        for w in itertools.product(range(len(S)), repeat=L):
            waves.append(("ex", list(w)))
    for L in ((4, 5, 8, 17, 64, 256) if T else (3, 5, 8)):
        for sd in range(3 if L <= 8 else 1):
            waves.append(("rnd", [L, sd]))
    waves.append(("zero", [4]))
    for sim in SIMS:
        for kind, w in waves:
            if kind == "ex" and len(w) == 3 and sim not in ("abrm", "abrm_hp", "blochsim.1", "abrm_nd.1") and not (T and sim != "abrm_ptx"):
                continue
            if kind == "ex" and len(w) == 4 and sim not in ("abrm", "abrm_hp", "blochsim.1", "abrm_nd.1"):
                continue      # thorough: every waveform of four samples for the four 1-D simulators
            for gi in range(3):
                if kind == "ex" and len(w) >= 2 and gi > 0 and sim in ("abrm_ptx", "abrm_nd.3", "abrm.balanced", "blochsim.nd"):
                    continue
                cases.append(dict(kind="sim", sim=sim, wave=[kind, w], grad=gi))
    for des in ("dzls", "dzlp", "dzmp", "dzmp.rev", "msinc"):
        for n in (16, 32, 64):
            for tb in (2, 4, 8):
                for sc in (1.0, float(np.sqrt(0.5))):
                    cases.append(dict(kind="slr", design=des, n=n, tb=tb, scale=sc))
    for n in ((1, 2, 3, 5, 8, 16, 33, 64) if T else (1, 3, 8, 16, 33)):
        for mx in ((0.3, 0.6, 0.9, 0.95) if T else (0.3, 0.9)):
            for sd in range(8 if T else 3):
                cases.append(dict(kind="slr", design="random", n=n, tb=0, scale=mx, sd=sd))
    # complex polynomials with structure: a real design shifted in frequency (b[0] stays exactly real), zero-padded,
    # with one coefficient made exactly real / exactly imaginary
    for base in ("dzls", "msinc"):
        for how in ("shift", "pad", "onereal", "oneimag"):
            for n in (16, 32):
                cases.append(dict(kind="slr", design="struct", base=base, how=how, n=n, tb=4, scale=0.7))
    for pt in ("ex", "se", "inv", "sat"):
        for ft in ("ms", "pm", "min", "max", "ls"):
            for n, tb in ((32, 4), (64, 8)):
                cases.append(dict(kind="dzrf", ptype=pt, ftype=ft, n=n, tb=tb))
    return cases


def waveform(spec, seed):
    kind, w = spec
    S = samples()
    if kind == "ex":
        return np.array([S[i] for i in w], dtype=complex)
    if kind == "zero":
        return np.zeros(w[0], dtype=complex)
    L, sd = w
    r = np.random.default_rng(50 + 7 * sd + seed)
    amp = r.choice([0.0, 0.05, 0.3, 1.0, 2.5], size=L, p=[0.1, 0.3, 0.3, 0.2, 0.1])
    return amp * np.exp(2j * np.pi * r.random(L))


def grads(gi, L, nd):
    base = [[0.0, 0.5, -0.5, 2.0], [0.5, 0.5, 0.5, 0.5], [2.0, -0.5, 0.0, 0.5]][gi]
    g = np.array([[base[(t + d) % 4] * (1 if d % 2 == 0 else -1) for d in range(nd)] for t in range(L)], dtype=float)
    return g


def positions(nd):
    if nd == 1:
        return np.array([[-2.0], [-0.5], [0.0], [0.25], [1.0], [3.0]])
    if nd == 2:
        ax = [-1.0, 0.0, 0.75]
        return np.array(list(itertools.product(ax, ax)))
    ax = [-0.5, 1.0]
    return np.array(list(itertools.product(ax, ax, ax)))


def simulate(sim, rf, g, x, N_total=None):
    """Returns (a, b) for one segment. g: [Nt, nd]; x: [Ns, nd]."""
    import sigpy.mri.rf as rfm
    from sigpy.mri.rf import optcont
    if sim.startswith("abrm.") or sim == "abrm":
        # gradient is 2 pi / len(rf): rescale positions so that a segment sees the same rotation per sample
        xs = x[:, 0] * (len(rf) / float(N_total or len(rf)))
        return rfm.sim.abrm(rf, xs, balanced=False)
    if sim.startswith("abrm_nd"):
        return rfm.sim.abrm_nd(rf, x, g)
    if sim == "abrm_hp":
        return rfm.sim.abrm_hp(rf, g[:, 0], x[:, 0])
    if sim == "abrm_hp.offres":
        return rfm.sim.abrm_hp(rf, g[:, 0], x[:, 0], dom0dt=0.3)
    if sim == "abrm_ptx":
        b1 = np.stack([rf, 0.5j * rf], axis=0) / (4e-6 * 267.522 * 1e6 / 1000)
        a, b, m, mz = rfm.sim.abrm_ptx(b1, x, g / (4e-6 * 267.522 * 1e6 / 1000), 4e-6)
        return np.asarray(a).ravel(), np.asarray(b).ravel()
    if sim == "blochsim.1":
        return optcont.blochsim(rf, x[:, 0], g[:, 0])
    if sim == "blochsim.nd":
        return optcont.blochsim(rf, x, g)
    raise ValueError(sim)


def compose(sim, a1, b1, a2, b2):
    """(a2,b2) applied after (a1,b1)."""
    if sim == "abrm_ptx":
        return a2 * a1 - b2 * np.conj(b1), a2 * b1 + b2 * np.conj(a1)
    return a2 * a1 - np.conj(b2) * b1, b2 * a1 + np.conj(a2) * b1


def run_case(case, seed):
    if case["kind"] == "sim":
        return run_sim(case, seed)
    return run_slr(case, seed)


def run_sim(case, seed):
    import sigpy.mri.rf as rfm
    viol = []
    sim = case["sim"]
    rf = waveform(case["wave"], seed)
    L = len(rf)
    nd = {"abrm": 1, "abrm.balanced": 1, "abrm_nd.1": 1, "abrm_nd.2": 2, "abrm_nd.3": 3, "abrm_hp": 1, "abrm_hp.offres": 1,
          "abrm_ptx": 2, "blochsim.1": 1, "blochsim.nd": 2}[sim]
    x = positions(nd)
    g = grads(case["grad"], L, nd)
    when = sim
    seen = set()

    def V(oracle, detail):
        if oracle in seen:
            return
        seen.add(oracle)
        viol.append(dict(oracle=oracle, key=dict(site="mri.rf.sim." + sim.split(".")[0], when=when), detail=detail + " | " + str(case)))
    rf0, g0, x0 = rf.copy(), g.copy(), x.copy()
    if sim == "abrm.balanced":
        a, b = rfm.sim.abrm(rf, x[:, 0], balanced=True)
    else:
        a, b = simulate(sim, rf, g, x, L)
    a, b = np.asarray(a).ravel(), np.asarray(b).ravel()
    trans = 1
    nrm = np.abs(a) ** 2 + np.abs(b) ** 2
    if not np.all(np.isfinite(nrm)) or np.abs(nrm - 1).max() > 1e-12 * max(1, L):
        V("unitary", "max | |a|^2+|b|^2 - 1 | = %.3g" % float(np.nanmax(np.abs(nrm - 1))))
    if not rf.any():
        if np.abs(b).max() > 1e-14 or np.abs(np.abs(a) - 1).max() > 1e-13:
            V("zero-pulse-identity", "zero pulse: max|b| = %.3g, max| |a| - 1 | = %.3g" % (np.abs(b).max(), np.abs(np.abs(a) - 1).max()))
        origin = np.all(x == 0, axis=1)
        if origin.any() and sim != "abrm_hp.offres" and np.abs(a[origin] - 1).max() > 1e-13:
            V("zero-pulse-identity", "zero pulse at the origin: a = %s" % a[origin])
    if rf.tobytes() != rf0.tobytes() or g.tobytes() != g0.tobytes() or x.tobytes() != x0.tobytes():
        V("input-mutated", "an input array was modified")
    states = 1
    if sim != "abrm.balanced" and L >= 2:
        for k in range(1, L):
            a1, b1 = simulate(sim, rf[:k], g[:k], x, L)
            a2, b2 = simulate(sim, rf[k:], g[k:], x, L)
            ac, bc = compose(sim, np.asarray(a1).ravel(), np.asarray(b1).ravel(), np.asarray(a2).ravel(), np.asarray(b2).ravel())
            trans += 2
            states += 1
            err = max(np.abs(ac - a).max(), np.abs(bc - b).max())
            if not err <= 1e-10 * max(1, L):
                V("composition", "split at %d of %d: composed rotation differs from the whole simulation by %.3g" % (k, L, err))
                break
    return dict(states=states, transitions=trans, traces=max(1, L - 1), nontrivial=bool(rf.any() and L >= 2),
                outcome="ok" if not viol else "violation:" + viol[0]["oracle"], viol=viol)


def beta_poly(case, seed):
    from sigpy.mri.rf import slr
    des, n, tb = case["design"], case["n"], case["tb"]
    if des == "dzls":
        b = slr.dzls(n, tb)
    elif des == "dzlp":
        b = slr.dzlp(n, tb)
    elif des == "dzmp":
        b = slr.dzmp(n, tb)
    elif des == "dzmp.rev":
        b = slr.dzmp(n, tb)[::-1]
    elif des == "msinc":
        b = slr.msinc(n, tb / 4)
    elif des == "struct":
        b0 = np.asarray(slr.dzls(n, tb) if case["base"] == "dzls" else slr.msinc(n, tb / 4), dtype=complex)
        k = np.arange(n)
        if case["how"] == "shift":
            b = b0 * np.exp(1j * 0.7 * k)                 # b[0] stays exactly real
        elif case["how"] == "pad":
            b = np.concatenate([b0 * np.exp(1j * 0.4 * (k + 1)), np.zeros(3, complex)])
        elif case["how"] == "onereal":
            b = b0 * np.exp(1j * (0.3 + 0.2 * k))
            b[n // 2] = np.real(b[n // 2])
        else:
            b = b0 * np.exp(1j * (0.3 + 0.2 * k))
            b[n // 3] = 1j * np.imag(b[n // 3])
    else:
        r = np.random.default_rng(900 + case["sd"] + seed)
        b = r.standard_normal(n) + 1j * r.standard_normal(n)
    b = np.asarray(b, dtype=complex)
    w = np.linspace(-np.pi, np.pi, 2049)
    B = np.abs(np.exp(-1j * np.outer(w, np.arange(len(b)))) @ b).max()
    if des in ("random", "struct"):
        b = b * (case["scale"] / B)
    else:
        b = b * case["scale"]
        if B * case["scale"] >= 0.99:
            b = b * (0.99 / (B * case["scale"]))
    return b


def response(b, w):
    return np.exp(-1j * np.outer(w, np.arange(len(b)))) @ b


def run_slr(case, seed):
    from sigpy.mri.rf import slr, optcont
    import sigpy.mri.rf as rfm
    viol = []

    def V(oracle, detail, site="mri.rf.slr.b2rf"):
        viol.append(dict(oracle=oracle, key=dict(site=site, when=case["kind"]), detail=detail + " | " + str(case)))
    w = np.linspace(-np.pi, np.pi, 257)
    if case["kind"] == "dzrf":
        pt, ft, n, tb = case["ptype"], case["ftype"], case["n"], case["tb"]
        rf = slr.dzrf(n, tb, ptype=pt, ftype=ft)
        bsf, d1, d2 = slr.calc_ripples(pt, 0.01, 0.01)
        if ft == "ms":
            b = slr.msinc(n, tb / 4)
        elif ft == "pm":
            b = slr.dzlp(n, tb, d1, d2)
        elif ft == "min":
            b = slr.dzmp(n, tb, d1, d2)[::-1]
        elif ft == "max":
            b = slr.dzmp(n, tb, d1, d2)
        else:
            b = slr.dzls(n, tb, d1, d2)
        b = bsf * np.asarray(b, dtype=complex)
        Bmax = np.abs(response(b, np.linspace(-np.pi, np.pi, 2049))).max()
        if Bmax >= 0.999:
            return dict(states=1, transitions=1, nontrivial=False, outcome="skipped:max|B|>=1 (precondition)", viol=[])
        site = "mri.rf.slr.dzrf"
    else:
        b = beta_poly(case, seed)
        b0 = b.copy()
        rf = slr.b2rf(b)
        if b.tobytes() != b0.tobytes():
            V("input-mutated", "b2rf modified the beta polynomial")
        site = "mri.rf.slr.b2rf"
    rf = np.asarray(rf, dtype=complex)
    n = len(rf)
    Bw = np.abs(response(b, w))
    outs = {}
    a1, b1 = rfm.sim.abrm_hp(rf, np.ones(n), w)
    outs["abrm_hp"] = (np.asarray(a1), np.asarray(b1))
    a2, b2 = optcont.blochsim(rf, w, np.ones(n))
    outs["blochsim"] = (np.asarray(a2), np.asarray(b2))
    for nm, (aa, bb) in outs.items():
        err = float(np.abs(np.abs(bb) - Bw).max())
        if not err <= 1e-6:
            V("slr-round-trip", "%s: max | |b_sim| - |B| | = %.3g over 257 frequencies" % (nm, err), site)
        un = float(np.abs(np.abs(aa) ** 2 + np.abs(bb) ** 2 - 1).max())
        if not un <= 1e-12 * n:
            V("unitary", "%s: | |a|^2+|b|^2 - 1 | = %.3g" % (nm, un), "mri.rf.sim." + nm)
    return dict(states=1, transitions=3, nontrivial=True, outcome="ok" if not viol else "violation:" + viol[0]["oracle"], viol=viol)
